#!/venv/bin/python
"""setup_cmd: nothing to build (pure Python); verifies the framework imports and binds to /repo."""
import os
import sys
HERE = os.path.dirname(os.path.dirname(os.path.abspath(__file__)))
sys.path.insert(0, HERE)
from lib import core
core.bind_repo()
import pico8.lua.lua  # noqa
import png  # noqa
for d in ('evidence', 'replays'):
    os.makedirs(os.path.join(HERE, d), exist_ok=True)
print('verif framework ok; repo =', core.REPO)
