#!/venv/bin/python
"""kf.py <property> <known|fixed> <signature> <commit-or-> <what...>  — appends to known_findings.json"""
import json, sys
p = '/verif/known_findings.json'
d = json.load(open(p))
prop, status, sig, commit = sys.argv[1:5]
what = ' '.join(sys.argv[5:])
e = {'property': prop, 'status': status, 'signature': sig, 'what': what}
if status == 'fixed':
    e['commit'] = commit
    e['line'] = 'fixed: property=%s %s %s' % (prop, commit, what)
d['findings'] = [x for x in d['findings'] if not (x['property'] == prop and x['signature'] == sig)] + [e]
json.dump(d, open(p, 'w'), indent=1)
print('ok', len(d['findings']))
