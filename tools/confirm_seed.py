#!/venv/bin/python
"""confirm_seed.py <ID> <srcdir>  — independently confirms a seeded change delivered in <srcdir> (patch.diff, demo.py,
meta.json) in a fresh scratch worktree of /repo, then stores it as /verif/seeded/<ID>/ with what was run."""
import json
import os
import shutil
import subprocess
import sys
import tempfile

sid, src = sys.argv[1], sys.argv[2]
name = sys.argv[3] if len(sys.argv) > 3 else sid
patch = os.path.join(src, 'patch.diff')
demo = os.path.join(src, 'demo.py')
meta = json.load(open(os.path.join(src, 'meta.json')))
scratch = tempfile.mkdtemp(prefix='seed_', dir='/tmp')
os.rmdir(scratch)
ran = {}
try:
    subprocess.run(['git', '-C', '/repo', 'worktree', 'add', '-q', '--detach', scratch, 'HEAD'], check=True)
    env = dict(os.environ, PYTHONPATH=scratch)

    def rundemo():
        # demos written by the sub-agents hard-code their own worktree path in an assertion: point them at the scratch tree
        txt = open(demo).read().replace('/tmp/wt/' + sid, scratch)
        d2 = os.path.join(scratch, '_demo_tmp.py')
        open(d2, 'w').write(txt)
        r = subprocess.run(['/venv/bin/python', d2], cwd=scratch, env=env, capture_output=True, text=True, timeout=1800)
        os.unlink(d2)
        return r
    r0 = rundemo()
    ran['demo_without_change'] = 'exit %d' % r0.returncode
    a = subprocess.run(['git', '-C', scratch, 'apply', patch], capture_output=True, text=True)
    ran['patch_applies'] = a.returncode == 0
    t = subprocess.run(['/venv/bin/python', '-m', 'pytest', '-q', '-p', 'no:cacheprovider', '--timeout=900'], cwd=scratch,
                       capture_output=True, text=True)
    ran['test_suite_with_change'] = t.stdout.strip().splitlines()[-1] if t.stdout.strip() else 'no output'
    r1 = rundemo()
    ran['demo_with_change'] = 'exit %d: %s' % (r1.returncode, (r1.stdout + r1.stderr).strip()[:300])
    ok = (r0.returncode == 0 and a.returncode == 0 and '278 passed' in ran['test_suite_with_change'] and r1.returncode != 0)
    ran['confirmed'] = ok
finally:
    subprocess.run(['git', '-C', '/repo', 'worktree', 'remove', '--force', scratch], capture_output=True)
    shutil.rmtree(scratch, ignore_errors=True)
print(json.dumps(ran, indent=1))
if ran.get('confirmed'):
    dst = os.path.join('/verif/seeded', name)
    os.makedirs(dst, exist_ok=True)
    shutil.copy(patch, os.path.join(dst, 'patch.diff'))
    shutil.copy(demo, os.path.join(dst, 'demo.py'))
    out = {'property': meta.get('property', sid), 'summary': meta.get('summary'), 'needs': meta.get('needs'),
           'author_ran': meta.get('ran'), 'confirmed_by_me': ran, 'base_commit': subprocess.run(
               ['git', '-C', '/repo', 'rev-parse', '--short', 'HEAD'], capture_output=True, text=True).stdout.strip()}
    json.dump(out, open(os.path.join(dst, 'meta.json'), 'w'), indent=1)
    print('stored', dst)
else:
    print('NOT CONFIRMED')
