#!/bin/bash
# Runs every /verif/mutants/<PID>_*.patch through tools/mutcheck.py against that property's quick check.
# Usage: tools/mutation_check.sh [--no-tests] [pattern]
cd /verif
NT=""
if [ "$1" == "--no-tests" ]; then NT="--no-tests"; shift; fi
PAT=${1:-}
for p in mutants/*${PAT}*.patch; do
  b=$(basename $p .patch); pid=${b%%_*}
  echo "=== $b"
  /venv/bin/python tools/mutcheck.py $NT $p $pid 2>&1 | grep -E "tests:|DETECTED|MISSED|HARNESS|PATCH|signature" | cut -c1-220
done
