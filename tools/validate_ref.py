#!/venv/bin/python
"""Validates the reference codecs (lib/refcodec.py) against the PICO-8-written cart pairs in tests/testdata,
without importing picotool: the same cart as .p8 and .p8.png must decode to the same regions/code."""
import os
import sys
HERE = os.path.dirname(os.path.dirname(os.path.abspath(__file__)))
sys.path.insert(0, HERE)
from lib import refcodec as rc

TD = os.path.join(os.environ.get('VERIF_REPO', '/repo'), 'tests', 'testdata')


def main():
    bad = 0
    for base in ('test_cart', 'test_gol', 'test_cart_memdump', 'empty'):
        p8 = rc.parse_p8(open(os.path.join(TD, base + '.p8'), 'rb').read())
        regs = rc.p8_regions(p8)
        w, h, planes, rows = rc.png_decode(open(os.path.join(TD, base + '.p8.png'), 'rb').read())
        mem = rc.stego_unpack(w, h, planes, rows)
        m = rc.split_memory(mem)
        for name, (lo, hi) in rc.REGION_ORDER:
            a = regs[name]
            b = m[name]
            if a is None:
                print(base, name, 'absent in .p8')
                continue
            # .p8 files may omit trailing all-zero rows
            a2 = a + bytes(len(b) - len(a)) if len(a) < len(b) else a
            if name == 'music':
                # bit 7 of the 4th byte is not representable in text
                b = bytes((x & 0x7f) if i % 4 == 3 else x for i, x in enumerate(b))
            ok = a2 == b
            if not ok:
                bad += 1
                i = next(i for i in range(len(b)) if a2[i] != b[i])
                print('MISMATCH', base, name, 'at', hex(i), a2[i], b[i], len(a), len(b))
        text, kind = rc.code_area_decode(m['code_area'])
        text = rc.strip_future(text)
        lua = b'\n'.join(p8.sections.get('lua', []))
        # .p8 stores unicode; compare only if pure ascii
        if all(c < 128 for c in lua):
            t = text.rstrip(b'\n')
            l = lua.rstrip(b'\n')
            if t != l:
                bad += 1
                print('CODE MISMATCH', base, kind, len(t), len(l), t[:60], l[:60])
            else:
                print(base, 'code ok', kind, len(t), 'version', m['version'], p8.version)
    print('reference validation', 'FAILED' if bad else 'ok')
    return 1 if bad else 0


sys.exit(main())
