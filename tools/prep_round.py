#!/venv/bin/python
"""prep_round.py <round-tag> [ID ...]  — prepares a seeded-change round: for every property a private scratch worktree of
/repo HEAD under /tmp/wt/<ID>, an output directory /tmp/wt/out_<ID>/ with property.txt (the property's text, nothing
from /verif's machinery) and taken.txt (one-sentence summaries of the changes earlier rounds made for that property),
and prints the prompt for each sub-agent (tools/seed_prompt.txt with @ID@ substituted) to /tmp/wt/out_<ID>/prompt.txt."""
import json
import os
import subprocess
import sys

ids = sys.argv[2:]
props = {}
for l in open('/verif/properties.jsonl'):
    d = json.loads(l)
    props[d['id']] = d
if not ids:
    ids = sorted(props)
os.makedirs('/tmp/wt', exist_ok=True)
template = open('/verif/tools/seed_prompt.txt').read()
for pid in ids:
    wt = '/tmp/wt/' + pid
    out = '/tmp/wt/out_' + pid
    subprocess.run(['git', '-C', '/repo', 'worktree', 'remove', '--force', wt], capture_output=True)
    subprocess.run(['rm', '-rf', wt, out])
    subprocess.run(['git', '-C', '/repo', 'worktree', 'add', '-q', '--detach', wt, 'HEAD'], check=True)
    os.makedirs(out)
    p = props[pid]
    with open(os.path.join(out, 'property.txt'), 'w') as fh:
        fh.write('Property %s: %s\n\nStatement:\n%s\n\nQuantified over:\n%s\n\nWhy the existing tests cannot settle it:\n%s\n\nCode anchors:\n%s\n' % (
            pid, p['title'], p['statement'], json.dumps(p['quantifier'], indent=1), p['why_tests_cant'],
            json.dumps(p.get('anchors'), indent=1)))
    taken = []
    for name in sorted(os.listdir('/verif/seeded')):
        mp = os.path.join('/verif/seeded', name, 'meta.json')
        if name.split('_')[0] == pid and os.path.exists(mp):
            m = json.load(open(mp))
            taken.append('- %s  (needs: %s)' % (m.get('summary'), m.get('needs')))
    extra = '/verif/tools/taken_extra/%s.txt' % pid
    if os.path.exists(extra):
        taken.append(open(extra).read().strip())
    with open(os.path.join(out, 'taken.txt'), 'w') as fh:
        fh.write('\n'.join(taken) + '\n')
    with open(os.path.join(out, 'prompt.txt'), 'w') as fh:
        fh.write(template.replace('@ID@', pid))
    print(pid, 'ready', wt, len(taken), 'taken')
