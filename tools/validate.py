#!/opt/veriftools/pyvenv/bin/python
"""Validates MANIFEST.json and evidence/*.json against the schemas (run with python3-vt)."""
import glob
import json
import sys
import jsonschema
ok = True
man = json.load(open('/verif/MANIFEST.json'))
jsonschema.validate(man, json.load(open('/root/.vp/MANIFEST.schema.json')))
es = json.load(open('/root/.vp/EVIDENCE.schema.json'))
for f in sorted(glob.glob('/verif/evidence/*.json')):
    try:
        jsonschema.validate(json.load(open(f)), es)
    except Exception as e:
        ok = False
        print('INVALID', f, str(e)[:300])
ids = {c['property_id'] for c in man['checks']} | {c['property_id'] for c in man.get('not_applicable', [])}
print('manifest ok; claimed', len(man['checks']), 'n/a', len(man.get('not_applicable', [])), 'covered ids', len(ids))
sys.exit(0 if ok else 1)
