#!/venv/bin/python
"""mutcheck.py <patch> <PID> [--tier quick] [--no-tests]

Applies a patch to a scratch worktree of /repo (outside /repo and /verif), optionally runs the repository's own
test suite there (a usable mutant must still pass it), runs the property's check with VERIF_REPO pointing at the
scratch tree, and reports whether a VIOLATION was raised. The scratch tree is removed afterwards."""
import argparse
import os
import shutil
import subprocess
import sys
import tempfile

ap = argparse.ArgumentParser()
ap.add_argument('patch')
ap.add_argument('pids', nargs='+')
ap.add_argument('--tier', default='quick')
ap.add_argument('--no-tests', action='store_true')
a = ap.parse_args()
patch = os.path.abspath(a.patch)
scratch = tempfile.mkdtemp(prefix='mut_', dir='/tmp')
os.rmdir(scratch)
try:
    subprocess.run(['git', '-C', '/repo', 'worktree', 'add', '-q', '--detach', scratch, 'HEAD'], check=True)
    # carry uncommitted state of /repo? no: mutants are relative to HEAD
    r = subprocess.run(['git', '-C', scratch, 'apply', patch], capture_output=True, text=True)
    if r.returncode != 0:
        # the tree moved on since the patch was taken (later fix: commits): fall back to a three-way merge
        r = subprocess.run(['git', '-C', scratch, 'apply', '-3', patch], capture_output=True, text=True)
    if r.returncode != 0:
        print('PATCH-DOES-NOT-APPLY', r.stderr.strip()[:300])
        sys.exit(3)
    tests = 'skipped'
    if not a.no_tests:
        t = subprocess.run(['/venv/bin/python', '-m', 'pytest', '-q', '-p', 'no:cacheprovider', '-x', '--timeout=900'],
                           cwd=scratch, capture_output=True, text=True)
        tests = t.stdout.strip().splitlines()[-1] if t.stdout.strip() else 'no output'
    print('tests:', tests)
    for pid in a.pids:
        env = dict(os.environ, VERIF_REPO=scratch)
        c = subprocess.run(['/venv/bin/python', '/verif/check.py', pid, '--tier', a.tier], capture_output=True, text=True,
                           env=env, cwd='/verif')
        viol = [l for l in c.stdout.splitlines() if l.startswith('VIOLATION')]
        sigs = [l.strip() for l in c.stdout.splitlines() if l.strip().startswith('signature:')]
        last = c.stdout.strip().splitlines()[-1] if c.stdout.strip() else ''
        print('%s exit=%d violations=%d %s' % (pid, c.returncode, len(viol), 'DETECTED' if c.returncode == 1 and viol else (
            'HARNESS-ERROR' if c.returncode == 2 else 'MISSED')))
        for s in sigs[:4]:
            print('   ', s[:200])
        if c.returncode not in (0, 1):
            print(c.stdout[-1500:], c.stderr[-1500:])
finally:
    subprocess.run(['git', '-C', '/repo', 'worktree', 'remove', '--force', scratch], capture_output=True)
    shutil.rmtree(scratch, ignore_errors=True)
