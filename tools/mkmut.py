#!/venv/bin/python
"""Generates /verif/mutants/*.patch from the (file, old, new) table below, against /repo HEAD."""
import os
import subprocess
import sys
import tempfile
import shutil

M = [
 # name, property, file, old, new
 ('C01_drop_name_number_space', 'C01', 'pico8/lua/lua.py',
  "            elif token.matches(lexer.TokNumber):\n                if (self._last_was_name_keyword_number or\n                        self._would_fuse(token.code)):\n                    yield b' '",
  "            elif token.matches(lexer.TokNumber):\n                if self._would_fuse(token.code):\n                    yield b' '"),
 ('C01_fuse_minus_only_eq', 'C01', 'pico8/lua/lua.py',
  "        if last.endswith(b'-') and code.startswith(b'-'):",
  "        if last == b'-' and code == b'-':"),
 ('C02_skip_keepfile_check', 'C02', 'pico8/lua/lua.py',
  "                if (new_name not in MinifyNameFactory.PRESERVED_NAMES and\n                        (self._names_to_keep is None or\n                         new_name not in self._names_to_keep)):",
  "                if new_name not in MinifyNameFactory.PRESERVED_NAMES:"),
 ('C02_name_for_id_offbyone', 'C02', 'pico8/lua/lua.py',
  "                int(id / len(MinifyNameFactory.NAME_CHARS)))",
  "                int(id / len(MinifyNameFactory.NAME_CHARS)) - 1)"),
 ('C03_music_flag_swap', 'C03', 'pico8/music/music.py',
  "            p8flags = (fstop << 2) | (frepeat << 1) | fnext",
  "            p8flags = (fnext << 2) | (frepeat << 1) | fstop"),
 ('C03_label_dropped_when_zero_first', 'C03', 'pico8/game/formatter/p8.py',
  "        if game.label:",
  "        if game.label and any(game.label._data[:64]):"),
 ('C04_compressed_le', 'C04', 'pico8/game/formatter/p8png.py',
  "    if len(code_bytes) > 0x8000-0x4300:",
  "    if len(code_bytes) > 0x8000-0x4300+1:"),
 ('C05_maxblock_18', 'C05', 'pico8/game/compress.py',
  "    max_block_len = 17",
  "    max_block_len = 18"),
 ('C05_window_plus', 'C05', 'pico8/game/compress.py',
  "    max_hist_len = (255 - len(COMPRESSED_LUA_CHAR_TABLE)) * 16",
  "    max_hist_len = (256 - len(COMPRESSED_LUA_CHAR_TABLE)) * 16"),
 ('C06_escape_pad_off', 'C06', 'pico8/lua/lexer.py',
  "                    if esc.isdigit() and self._data[i+1:i+2].isdigit():",
  "                    if esc == b'0' and self._data[i+1:i+2].isdigit():"),
 ('C07_shift_order', 'C07', 'pico8/lua/lexer.py',
  "b'<<>', b'>>>', b'>><', b'<<', b'>>',",
  "b'<<>', b'>>', b'>>>', b'>><', b'<<',"),
 ('C07_dotdot_lookahead', 'C07', 'pico8/lua/lexer.py',
  "(re.compile(br'[0-9]+(\\.(?!\\.)[0-9]*)?([eE]-?[0-9]+)?'), TokNumber),",
  "(re.compile(br'[0-9]+(\\.[0-9]*)?([eE]-?[0-9]+)?'), TokNumber),"),
 ('C08_shortif_fence', 'C08', 'pico8/lua/parser.py',
  "                (self._max_pos is None or self._pos < self._max_pos)):",
  "                (self._max_pos is None or self._pos <= self._max_pos)):"),
 ('C08_missing_binop', 'C08', 'pico8/lua/parser.py',
  "b'&', b'|', b'^^', b'<<', b'>>', b'>>>', b'<<>', b'>><', b'\\\\',",
  "b'&', b'|', b'^^', b'<<', b'>>', b'>>>', b'<<>', b'\\\\',"),
 ('C09_no_eof_check', 'C09', 'pico8/lua/lua.py',
  "        if (not self._args.get('ignore_tokens') and\n                self._pos < len(self._tokens)):",
  "        if (self._args.get('ignore_tokens') and\n                self._pos < len(self._tokens)):"),
 ('C10_blankline_dollar', 'C10', 'pico8/lua/lua.py',
  "            br'\\n *\\Z', b'\\n' + b' ' * self._indent_mult * self._indent,",
  "            br'\\n *$', b'\\n' + b' ' * self._indent_mult * self._indent,"),
 ('C10_table_indent', 'C10', 'pico8/lua/lua.py',
  "    def _walk_TableConstructor(self, node):\n        yield self._get_text(node, b'{')\n        self._indent += 1",
  "    def _walk_TableConstructor(self, node):\n        yield self._get_text(node, b'{')\n        self._indent += 2"),
 ('C11_direct_write', 'C11', 'pico8/game/file.py',
  "    with tempfile.TemporaryFile(**file_args) as outfh:\n        if kwargs.get('label_fname', None) is None:\n            if os.path.exists(filename):\n                kwargs['label_fname'] = filename\n        fmt.to_file(game, outfh, filename=filename, *args, **kwargs)\n        outfh.seek(0)\n        with open(filename, **file_args) as finalfh:\n            finalfh.write(outfh.read())",
  "    if fmt is P8Formatter:\n        with open(filename, **file_args) as outfh:\n            fmt.to_file(game, outfh, filename=filename, *args, **kwargs)\n        return\n    with tempfile.TemporaryFile(**file_args) as outfh:\n        if kwargs.get('label_fname', None) is None:\n            if os.path.exists(filename):\n                kwargs['label_fname'] = filename\n        fmt.to_file(game, outfh, filename=filename, *args, **kwargs)\n        outfh.seek(0)\n        with open(filename, **file_args) as finalfh:\n            finalfh.write(outfh.read())"),
 ('C12_prefix_again', 'C12', 'pico8/game/formatter/p8.py',
  "        if not inc_full_path.startswith(root_path + os.sep):",
  "        if not inc_full_path.startswith(root_path):"),
 ('C12_dotdot_filter', 'C12', 'pico8/build/build.py',
  "        if (b'./' in require_path or require_path.startswith(b'/') or\n                b'..' in require_path.split(b'/')):",
  "        if (b'./' in require_path or require_path.startswith(b'/')):"),
 ('C13_empty_uses_result', 'C13', 'pico8/build/build.py',
  "            setattr(result, section, getattr(empty_source, section))",
  "            if section != 'gff':\n                setattr(result, section, getattr(empty_source, section))"),
 ('C14_visited_by_path', 'C14', 'pico8/build/build.py',
  "        if require_path not in package_lua:",
  "        if require_path not in package_lua or use_game_loop:"),
 ('C15_dup_spelling', 'C15', 'pico8/lua/lua.py',
  "    P8Char(254, '◜', 'Left arc'),",
  "    P8Char(254, '◝', 'Left arc'),"),
 ('C16_sfx_effect_mask', 'C16', 'pico8/sfx/sfx.py',
  "        effect = (msb & 0x70) >> 4",
  "        effect = (msb & 0x30) >> 4"),
 ('C17_clip_ge', 'C17', 'pico8/gfx/gfx.py',
  "                        ((first_x_coord + x) > 127)):",
  "                        ((first_x_coord + x) > 128)):"),
 ('C17_gff_clear', 'C17', 'pico8/gff/gff.py',
  "        self._data[id] &= (~flags & ALL)",
  "        self._data[id] &= (~flags & 0x7f)"),
 ('C18_hi_inclusive', 'C18', 'pico8/game/game.py',
  "            hi = min(start_addr + len(data), end_a)",
  "            hi = min(start_addr + len(data), end_a - 1) if end_a == 0x3100 else min(start_addr + len(data), end_a)"),
 ('C19_header_one', 'C19', 'pico8/lua/lua.py',
  "                seen_header_comments < 2 and",
  "                seen_header_comments < 1 and"),
 ('C20_tab_offbyone', 'C20', 'pico8/game/formatter/p8.py',
  "        elif inc_tab is None or inc_tab == cur_tab:",
  "        elif inc_tab is None or inc_tab == cur_tab or (inc_tab > 2 and inc_tab == cur_tab + 1):"),
 ('C02_cli_luamin_drops_keepfile', 'C02', 'pico8/tool.py',
  "            'keep_names_from_file': args.keep_names_from_file})",
  "            'keep_names_from_file': None})"),
 ('C06_build_copy_strips_comments', 'C06', 'pico8/build/build.py',
  "                source = file.from_file(fn)\n                setattr(result, section, getattr(source, section))",
  "                source = file.from_file(fn)\n                if section == 'lua':\n                    source.lua.reparse(writer_cls=lua.LuaMinifyTokenWriter, writer_args={'keep_all_names': True})\n                setattr(result, section, getattr(source, section))"),
 ('C19_cli_png_header', 'C19', 'pico8/game/formatter/p8png.py',
  "        code_bytes = get_bytes_from_code(b''.join(cart_lua))",
  "        code_bytes = get_bytes_from_code(b''.join(cart_lua).lstrip(b'-/ '))"),
 ('C20_lua_include_cache', 'C20', 'pico8/game/formatter/p8.py',
  ["TAB_LINE_RE = re.compile(br'-->8')",
   "            with open(inc_full_path, 'rb') as fh:\n                for line in fh:\n                    yield line"],
  ["TAB_LINE_RE = re.compile(br'-->8')\n_LUA_CACHE = {}",
   "            if inc_full_path not in _LUA_CACHE:\n                with open(inc_full_path, 'rb') as fh:\n                    _LUA_CACHE[inc_full_path] = list(fh)\n            for line in _LUA_CACHE[inc_full_path]:\n                yield line"]),
]

out = '/verif/mutants'
os.makedirs(out, exist_ok=True)
scratch = tempfile.mkdtemp(prefix='mk_', dir='/tmp')
os.rmdir(scratch)
subprocess.run(['git', '-C', '/repo', 'worktree', 'add', '-q', '--detach', scratch, 'HEAD'], check=True)
try:
    for name, pid, f, old, new in M:
        p = os.path.join(scratch, f)
        s = open(p, encoding='utf-8').read()
        olds = old if isinstance(old, list) else [old]
        news = new if isinstance(new, list) else [new]
        if any(o not in s for o in olds):
            print('OLD TEXT NOT FOUND for', name)
            continue
        for o, n_ in zip(olds, news):
            s = s.replace(o, n_, 1)
        open(p, 'w', encoding='utf-8').write(s)
        d = subprocess.run(['git', '-C', scratch, 'diff'], capture_output=True, text=True).stdout
        open(os.path.join(out, name + '.patch'), 'w').write(d)
        subprocess.run(['git', '-C', scratch, 'checkout', '-q', '--', '.'], check=True)
        print('wrote', name)
finally:
    subprocess.run(['git', '-C', '/repo', 'worktree', 'remove', '--force', scratch])
    shutil.rmtree(scratch, ignore_errors=True)
