#!/venv/bin/python
"""Regenerates /verif/MANIFEST.json from the table below (single source of truth)."""
import json
import os

HERE = os.path.dirname(os.path.dirname(os.path.abspath(__file__)))

# id -> (level, technique, text, note, design_ref)
CHECKS = {}


def add(pid, level, technique, text, note, ref):
    CHECKS[pid] = dict(level=level, technique=technique, text=text, note=note, ref=ref)


add('C15', 'exploration',
    'bounded-exhaustive enumeration of all byte strings of length <=2 (+ special triples) on the real converters, '
    'plus exhaustive pairwise prefix check of the 256-entry table',
    'Complete enumeration of the 65 792 strings of length 1-2 and of the table relation; with prefix-freeness this '
    'extends to all strings, so nothing is sampled.',
    'Python UTF-8 codec; the step from pairs to all strings relies on the prefix-free table (checked exhaustively).',
    'DESIGN.md 4/C15')

add('C18', 'model_checking',
    'explicit-state search: all sequences (depth 2, thorough 3) of Game.write_cart_data calls whose ends lie within +-2 of '
    'a region boundary, real object beside a flat-array reference model, full-image comparison after every transition',
    'Every (start,end) pair around every boundary, accepted and rejected, from two initial contents, chained to depth 2/3; '
    'states/transitions are counted on the implementation.',
    'Interior addresses (>2 bytes from all boundaries) are represented by the interior points explored.',
    'DESIGN.md 5/C18')

add('C16', 'exploration',
    'bounded-exhaustive unit enumeration of every section codec and the PNG packer against independent reference codecs',
    'All 65 536 sfx note words, all values of every header/gfx/gff/map/music byte position, all 256x256 stego '
    '(byte, carrier) pairs per channel, whole-file memory map both directions, PICO-8-written cart pairs.',
    'Reference codecs in lib/refcodec.py (validated on PICO-8-written carts by tools/validate_ref.py); unit independence.',
    'DESIGN.md 4/C16')

add('C03', 'exploration',
    'bounded-exhaustive covering family of carts through the real .p8 writer, an independent .p8 reader and the real reader; '
    'rewrite identity; write/read chains',
    'Every unit value of every region/label position, 44 versions, Lua sources with every byte value and byte pairs, '
    'each written, read back two ways, re-written and chained.',
    'Unit independence; C15 bijection used to decode __lua__ in the independent reader.',
    'DESIGN.md 4/C03')

add('C05', 'model_checking',
    'exhaustive enumeration of code texts through the real encoder judged by an independent :c: decoder, plus explicit-state '
    'BFS over the space of well-formed streams (incl. overlapping references) comparing the real decoder with the reference',
    'All strings <=8 (thorough <=11) over a 4-symbol alphabet, macro strings with _update60, window-edge and truncation '
    'families; decoder BFS to depth 5 (thorough 6) deduplicated on produced output.',
    'Reference decoder correctness (validated on PICO-8-written carts); offsets restricted to a boundary set per state.',
    'DESIGN.md 4/C05')

add('C04', 'exploration',
    'bounded-exhaustive cart/code-size/destination families through the real .p8.png writer on real paths, judged by an '
    'independent PNG decoder + stego unpacker + :c: decoder and by the real reader',
    'Region covering family, versions 0-41/255, every code length 0-40 (compressible and not), raw and compressed sizes '
    'at the 0x3d00 capacity boundary (+-1, thorough +-2), _update60 sources, both destination states, conversion chain.',
    'Reference decoders correct; code sizes between 41 bytes and the capacity edge covered at selected sizes only.',
    'DESIGN.md 4/C04')

add('C17', 'model_checking',
    'explicit-state search over accessor-call sequences on the real section objects beside a plain-array reference model; '
    'frame condition on all five regions and every getter compared after every transition',
    'All sequences to depth 2 (gff 3; thorough 3/4 with a reduced deep menu) from three initial contents over menus that '
    'cross every sprite-sheet and map edge by 0, 1 and many cells, incl. TRANSPARENT and ragged rows.',
    'Reference model = the accessor docstrings; corner ids/coordinates represent the interior (affine index arithmetic).',
    'DESIGN.md 5/C17')

add('C07', 'exploration',
    'bounded-exhaustive enumeration of source texts (all strings <=4/5 over a 26-character decision alphabet, all ordered '
    'pairs/triples of token-class representatives, keyword embeddings, multi-line forms) through the real lexer, judged by '
    'an independent hand-written reference lexer; chunked vs unchunked feeding compared',
    'Complete enumeration of the stated text spaces; every accepted text is compared token by token (kind, extent, decoded '
    'string bytes, numeric value, line/column) and re-fed split at line ends.',
    'Reference lexer lib/reflex.py (Lua 5.2 llex semantics + dialect extensions); rejected texts demand nothing.',
    'DESIGN.md 3/C07')

add('C06', 'exploration',
    'bounded-exhaustive enumeration of sources (string bodies of <=2/3 atoms over 47 escape/byte atoms x 2 quotes, all '
    'decimal escapes x followers, every raw byte in string/comment/identifier, long brackets level 0-3, generated programs '
    'x layouts, newline/chunking variants) through Lua.from_lines + the default writer, judged with the reference lexer',
    'Complete enumeration of the stated spaces; output compared byte for byte outside quoted literals and by decoded value '
    'inside them.',
    'Reference lexer decodes string literals per Lua 5.2 + P8SCII escapes.',
    'DESIGN.md 3/C06')

add('C08', 'exploration',
    'derivation-bounded exhaustive enumeration of the dialect grammar (grammar as data, adjacency fixpoint, one witness per '
    'adjacent terminal pair) x deviation-bounded layouts, parsed by the real parser and compared with the derivation\'s '
    'own skeleton through an AST adapter',
    'All derivations with <=1 (thorough <=2) deviations per statement kind, all ordered statement-kind pairs x separators, '
    'nesting to depth 3, a witness for each of the 4322 compile-valid adjacent terminal-class pairs, every layout with one '
    'deviating gap over 13 separators; end-of-input consumption and tree equality checked on each.',
    'Ground truth from the derivation (self-checked with the reference lexer); flat expression comparison.',
    'DESIGN.md 3/C08')

add('C09', 'exploration',
    'the C08 derivation-bounded program x layout space x indent widths through the real formatter (and a CLI batch), judged '
    'by the reference lexer; plus exhaustive single-token deletion/insertion mutants of small programs through every '
    'tree-driven writer for the no-silent-loss clause',
    'Every enumerated program/layout/width: no exception, identical significant tokens, comments, line-scope extents, token '
    'count; every mutant: raises or keeps all tokens.',
    'Strings compared by decoded value; ground truth from derivations; reference lexer.',
    'DESIGN.md 3/C09')

add('C10', 'exploration',
    'deviation-bounded exhaustive layout perturbation: every generated program in one-statement-per-line layouts with every '
    'single (thorough: double) perturbed place (indentation, trailing blanks, blank-line runs, own-line comments) x indent '
    'widths, through the real formatter; output shape judged with derivation depths and the reference lexer',
    'fmt(variant)==fmt(base), idempotence, indentation = width x nesting depth for every code line, no trailing blanks, '
    'no double/terminal blank lines on every enumerated case.',
    'Token depth from the derivation; lines ending inside multi-line tokens exempt.',
    'DESIGN.md 3/C10')

add('C01', 'model_checking',
    'exhaustive enumeration of the dialect program space incl. a witness for every grammar-adjacent terminal pair x every '
    'legal separator x 3 configurations through the real token minifier, whose state machine is observed on the real object '
    '(states / transitions visited); output judged by the reference lexer; CLI batch through luamin and build --lua-minify',
    'Every adjacent token-class pair the grammar allows is minified under every separator; token identity (numbers by value, '
    'strings by decoded bytes), line-scope extents, comment containment and token count checked on every case.',
    'Reference lexer; identifiers compared by kind (mapping properties are C02); newlines outside line scopes not compared.',
    'DESIGN.md 3/C01')

add('C19', 'model_checking',
    'exhaustive enumeration of header shapes (all item sequences <=4/5 over 8 item kinds x 3 followers) through the real '
    'token minifier with state-machine observation; first two leading comments located by the reference lexer',
    'Every header shape: first two comments verbatim at the top on own lines, title/byline preserved when derived from '
    'them, token oracle of C01 for the rest.',
    'Comments identified by the reference lexer; LF or CRLF accepted after a header comment.',
    'DESIGN.md 3/C19')

add('C02', 'model_checking',
    'explicit-state BFS over get_short_name call sequences on the real MinifyNameFactory for all 64 keep-files x keep_all, '
    'against a dict/sets reference model; exhaustive short-name id range; 20 000-name allocation run; identifier alignment '
    'on the generated program space under 3 configurations',
    'All call histories to depth 5/6 over a colliding 13-name alphabet with the invariant (function, injective, kept names '
    'fixed, nothing generated is reserved/kept) checked after every transition; all ids < 26^3+26^2 (26^4) distinct [a-z]+.',
    'Frozen snapshot of the documented API names; reference model.',
    'DESIGN.md 3/C02')

add('C20', 'exploration',
    'bounded-exhaustive enumeration of carts (all line sequences <=2/3 over 29 line kinds, <=3/4 over the 20 non-PNG kinds) '
    'loaded from a real directory, against an independent splice of the same files',
    'Every include kind (.lua with/without final newline, subdirectory, whole .p8/.p8.png, every tab selector 0..tabs+1, '
    'missing targets, included carts containing #include) at every position of short carts.',
    'Splice = byte concatenation; one extra newline tolerated after .p8.png code reaching the end (C04).',
    'DESIGN.md 5/C20')

add('C12', 'exploration',
    'bounded-exhaustive enumeration of path strings (<=3/5 atoms over 12 atoms) x 5 load-path settings x 3 cart locations '
    'through the public entries on a real directory tree with canary files, builtins.open/io.open traced in-process',
    'Every opened path inside the sandbox must lie under a permitted root for every enumerated string and configuration.',
    'Only opens inside the sandbox tree are judged; isfile probes are not.',
    'DESIGN.md 5/C12')

add('C13', 'exploration',
    'exhaustive enumeration of section assignments (<=2 specified sections, thorough all 4^6) x 4 OUT states + .lua sources + '
    'all error combinations through the real CLI entry on real files; sources written and OUT read back by independent codecs',
    'Every enumerated assignment: each OUT section equals the named source / empty default / previous content, labels kept; '
    'every error combination fails and leaves OUT byte-identical.',
    'Empty default = PICO-8-written empty.p8; independent reference writers/readers.',
    'DESIGN.md 5/C13')

add('C14', 'exploration',
    'exhaustive enumeration of require graphs (all edge sets on main+2/3 packages), package body shapes (every statement kind x '
    'game-loop placements x final newline x use_game_loop), path layouts and malformed require()s through the real build '
    'command; OUT re-lexed by the reference lexer and matched against the files\' token streams',
    'Built code parses to the end, ends with main\'s tokens, defines each reachable package exactly once with its tokens minus '
    'stripped game-loop functions, loader present; errors refuse and write nothing.',
    'Reference lexer; block order and loader text not fixed.',
    'DESIGN.md 5/C14')

add('C11', 'fault_enumeration',
    'fault-point enumeration on the real write paths: clean run counts the steps of every failure source (Lua writer chunks, '
    'section encoder lines, PNG encoder, encoder-stream writes, unparsable transformed code), then one injected run per '
    '(source, k) for all k, per configuration (entry x format x destination state x Lua writer)',
    'Every fault position of every source in 9 (thorough 23) configurations: the call fails, destination bytes/absence and the '
    'directory listing are unchanged.',
    'Faults injected by wrapping picotool classes from the harness; the final staging->destination copy is not faulted.',
    'DESIGN.md 5/C11')


# families added in the seeded-change rounds (DESIGN.md 7.x); appended to the technique text of each check
EXTRA = {
    'C01': 'every byte value in quoted strings, ordered pairs of string literals in one process, identifier populations of '
           'hundreds of names, statement/token-per-line layouts; generated text judged with stock Lua numerals as well; '
           '`p8tool stats` token count before/after; header comments ending like other tokens; long comments holding closers of other levels',
    'C02': 'identifier populations around the points where generated names grow or wrap (26, 52, 702, 728) as globals, '
           'fields, methods, labels; names differing only in letter case; CLI (.p8 and .p8.png outputs) with each option and with both together',
    'C03': 'overwrite / re-save histories on one path, Lua lines that merely contain a header-like word, every final byte, '
           'text after every byte that changes when re-lexed, PICO-8 default rows; read-back by file name as well as through the formatter; carts holding every ordered pair of C06 string atoms in both quote kinds; single lines of 72 000+ UTF-8 bytes; one file named through several path spellings and a same-named file in another directory; a cart loaded by name, edited through every route (map cells 32..63, write_cart_data, pokes, setters), saved and read back',
    'C04': 'raw capacity texts in both endings, code of 2^14..2^17 characters, sources ending in 0-4 newlines, comparison '
           '"one supplied newline per read, nothing lost"; _update60 carts whose last block straddles the end; label source named in three ways; existing destinations that are pictures but not loadable carts',
    'C05': 'decoder from far states: a reference at every offset 1..3135 after 3300 decoded bytes, declared lengths around '
           '2^15 and 2^16, NUL and every other byte value as a literal, histories of several texts in one process, code area under several version bytes; every text also handed over in a bytearray (same area, buffer unchanged)',
    'C06': 'ordered pairs of string literals in one source, all \\xhh spellings, CR / CR LF continuations, CLI batches '
           '(writep8, build from .p8 and from .lua files with every kind of ending); escaped backslash followed by the digits of padded escapes; the same object rendered again after a pure-Lua listing',
    'C07': 'the same programs through real .p8 and .p8.png files (file.from_file) and through `p8tool listtokens`; numeric '
           'literal grids; token-count content independence and `p8tool stats`; generator feed; single lexical items of 2^k +- 6 bytes (k = 8..15) of every kind',
    'C08': 'chain and local-depth families, re-use of one Lua object across feeds (incl. line-scoped statements), '
           '`p8tool printast` against the library tree; one Parser object re-used after rejected programs; label names re-used in sibling blocks; flat programs of 70..1100 (4200) repeated statements',
    'C09': 're-walk of one parsed object (same option dict) by formatter and tree echo writer, lone-CR layouts, chain family; multi-line literals whose inner lines end in blanks',
    'C10': 'runs of up to 20/40 own-line comments and blank lines, blanks/TABs after comments, end-of-file variants, CLI '
           'widths 0-8; up to 18/40 nested blocks incl. table fields whose values span lines; every program also one token per line; CLI widths on .p8 and .p8.png carts',
    'C11': 'entries file.to_file, p8tool luafmt [--overwrite], luamin, writep8, build; each fault also raised as OSError, '
           'FileNotFoundError, ValueError, MemoryError, KeyboardInterrupt, SystemExit at first/middle/last step; an '
           'unfaulted write after the failures must give the clean file; staging file cannot be created / fails when rewound; --debug and default verbosity; zero-byte destination; explicit label source; oversize code (compressible / incompressible) as failure source',
    'C12': 'require in 9 call spellings, nested require from a module in a subdirectory, ~ and $HOME, non-UTF-8 bytes, '
           'siblings differing from a root only in letter case, backslash spellings, directory names with pattern characters, load histories over changing cwd / HOME; builds naming another section source in another directory; canary files directly below the file system root as an environment answer the harness owns (isfile/exists/open); project directories whose own names hold ?, ;, %, *, [ ]; every build run from a canary-filled working directory',
    'C13': 'sparse .p8 sources (sections left out), sources re-saved between builds of one process, relative path spellings, dotted / odd file names, empty and directory paths, sources that exist but do not load (syntax error, damaged header, not a PNG, broken include), programs too large for a .p8.png OUT, an existing OUT whose text has CR LF / a byte order mark / an altered header line',
    'C14': 'sibling packages x game-loop placements, nested load paths via argument / environment / both, odd package '
           'names in every literal spelling, require in every expression position, decoys of the game-loop rule, 40-package star and chain, names differing in letter case; line-scoped statements (? print, short if, line comment) directly before a left-out game-loop function whose end shares its line with more code; use_game_loop=false spelled out; re-builds onto the cart the previous build wrote',
    'C15': 'every byte and every byte pair through real .p8 files at 8 cart versions (also through #include), UTF-8 look-alike byte runs, one-line payloads of 10 922..65 533 characters; every sequence <=3 (4) of reads of well-formed / malformed .p8 files and a write in one process; unterminated last lines ending in each special byte; a child process with an ASCII locale writing every glyph',
    'C16': 'whole .p8 files in the shape PICO-8 saves (every subset of sections, whole / truncated, blank-line placements, '
           'versions incl. 0) read one after the other in one process in four orders; every sequence <=3 of writes of one '
           'Game over {.p8, .p8.png}; rows as list / tuple / iterator / generator; last row / file without its final newline; every map cell (rows 0..63) of each loaded file through the Map object',
    'C17': 'carts as the loaders hand them out (120 section orders, 32 subsets, short sections, .p8.png) with a 50-edit '
           'history; twin carts (second load of the same file, from_bytes of to_bytes, shared caller buffers, label from gfx); depth-1 sweeps over every id / cell / note, pixel rows as lists / tuples / iterators / generators',
    'C18': 'histories: section objects replaced between writes, aliasing constructors, carts loaded from full / short / '
           'sparse / blank-line .p8 files and .p8.png, twin loads, oversize regions, a write at every address; the data argument being a region\'s live storage / a memoryview of it / a caller\'s bytearray; writes interleaved with edits made by other routes',
    'C19': 'all ordered pairs of 16 comment spellings (levelled, multi-line, degenerate) x separators, comments in every '
           'pair gap below 3 headers, CLI incl. comments that mention #include; block comments with empty lines; every multi-line source also one line per chunk; header comment lines ending in blanks, and holding low-range / high-range glyphs, through the CLI; header comments arriving in #include files',
    'C20': 'include spellings the recogniser accepts, a 13-tab cart with multi-digit selectors, CR LF separator lines, the '
           'cart named through 7 path spellings, a cart below the PICO-8 carts folder with decoys one level up, targets '
           're-saved between loads, symlinked directory / target, names with an extension-like piece, glyph bytes in included carts, included .lua files with CR LF / lone CR, upper-case names next to lower-case twins',
}

PENDING = {
}

ALL = ['C%02d' % i for i in range(1, 21)]


def main():
    checks = []
    for pid in ALL:
        if pid not in CHECKS:
            continue
        c = CHECKS[pid]
        checks.append({
            'property_id': pid,
            'quick_cmd': '/venv/bin/python check.py %s --tier quick' % pid,
            'thorough_cmd': '/venv/bin/python check.py %s --tier thorough' % pid,
            'evidence_file': '/verif/evidence/%s.json' % pid,
            'replay_cmd_template': '/venv/bin/python check.py %s --replay {path}' % pid,
            'engine': 'explore',
            'level_claimed': {'category': c['level'], 'text': c['text'], 'design_ref': c['ref']},
            'level_note': c['note'],
            'technique': c['technique'] + ('; further exhaustive families: ' + EXTRA[pid] if pid in EXTRA else ''),
        })
    na = []
    for pid in ALL:
        if pid not in CHECKS:
            na.append({'property_id': pid,
                       'reason': PENDING.get(pid, 'check under construction in this session (designed in DESIGN.md; '
                                                  'not yet registered, so nothing is claimed)')})
    man = {
        'version': 1,
        'setup_cmd': '/venv/bin/python tools/selftest.py',
        'hooks': {
            'guard': 'PICOTOOL_VERIF',
            'enable': 'none needed: all observation points are reached by wrapping from the harness; '
                      'checks import pico8 fresh from /repo (or $VERIF_REPO) in a new process on every run',
            'baseline_off_cmd': 'cd /repo && /venv/bin/python -m pytest -q -p no:cacheprovider --timeout=900',
            'source_commits': [],
            'add_only': True,
        },
        'engines': [
            {'name': 'explore', 'path': '/verif/lib/core.py',
             'serves_properties': sorted(CHECKS),
             'kind_free_text': 'purpose-built bounded-exhaustive explorer for Python: sharded ordered enumeration / '
                               'explicit-state BFS / fault-point enumeration directly on the picotool implementation'},
        ],
        'checks': checks,
        'not_applicable': na,
        'notes': 'All checks: cwd=/verif, interpreter /venv/bin/python, tree under test = $VERIF_REPO or /repo, '
                 'imported fresh per run. VERIF_SEED selects PYTHONHASHSEED and fill bytes only; enumeration order '
                 'and extent never depend on it. Known genuine defects are listed in known_findings.json.',
    }
    with open(os.path.join(HERE, 'MANIFEST.json'), 'w') as fh:
        json.dump(man, fh, indent=1)
        fh.write('\n')


if __name__ == '__main__':
    main()
