#!/venv/bin/python
"""Regenerates /verif/MANIFEST.json from the table below (single source of truth)."""
import json
import os

HERE = os.path.dirname(os.path.dirname(os.path.abspath(__file__)))

# id -> (level, technique, text, note, design_ref)
CHECKS = {}


def add(pid, level, technique, text, note, ref):
    CHECKS[pid] = dict(level=level, technique=technique, text=text, note=note, ref=ref)


add('C15', 'exploration',
    'bounded-exhaustive enumeration of all byte strings of length <=2 (+ special triples) on the real converters, '
    'plus exhaustive pairwise prefix check of the 256-entry table',
    'Complete enumeration of the 65 792 strings of length 1-2 and of the table relation; with prefix-freeness this '
    'extends to all strings, so nothing is sampled.',
    'Python UTF-8 codec; the step from pairs to all strings relies on the prefix-free table (checked exhaustively).',
    'DESIGN.md 4/C15')

PENDING = {
}

ALL = ['C%02d' % i for i in range(1, 21)]


def main():
    checks = []
    for pid in ALL:
        if pid not in CHECKS:
            continue
        c = CHECKS[pid]
        checks.append({
            'property_id': pid,
            'quick_cmd': '/venv/bin/python check.py %s --tier quick' % pid,
            'thorough_cmd': '/venv/bin/python check.py %s --tier thorough' % pid,
            'evidence_file': '/verif/evidence/%s.json' % pid,
            'replay_cmd_template': '/venv/bin/python check.py %s --replay {path}' % pid,
            'engine': 'explore',
            'level_claimed': {'category': c['level'], 'text': c['text'], 'design_ref': c['ref']},
            'level_note': c['note'],
            'technique': c['technique'],
        })
    na = []
    for pid in ALL:
        if pid not in CHECKS:
            na.append({'property_id': pid,
                       'reason': PENDING.get(pid, 'check under construction in this session (designed in DESIGN.md; '
                                                  'not yet registered, so nothing is claimed)')})
    man = {
        'version': 1,
        'setup_cmd': '/venv/bin/python tools/selftest.py',
        'hooks': {
            'guard': 'PICOTOOL_VERIF',
            'enable': 'none needed: all observation points are reached by wrapping from the harness; '
                      'checks import pico8 fresh from /repo (or $VERIF_REPO) in a new process on every run',
            'baseline_off_cmd': 'cd /repo && /venv/bin/python -m pytest -q -p no:cacheprovider --timeout=900',
            'source_commits': [],
            'add_only': True,
        },
        'engines': [
            {'name': 'explore', 'path': '/verif/lib/core.py',
             'serves_properties': sorted(CHECKS),
             'kind_free_text': 'purpose-built bounded-exhaustive explorer for Python: sharded ordered enumeration / '
                               'explicit-state BFS / fault-point enumeration directly on the picotool implementation'},
        ],
        'checks': checks,
        'not_applicable': na,
        'notes': 'All checks: cwd=/verif, interpreter /venv/bin/python, tree under test = $VERIF_REPO or /repo, '
                 'imported fresh per run. VERIF_SEED selects PYTHONHASHSEED and fill bytes only; enumeration order '
                 'and extent never depend on it. Known genuine defects are listed in known_findings.json.',
    }
    with open(os.path.join(HERE, 'MANIFEST.json'), 'w') as fh:
        json.dump(man, fh, indent=1)
        fh.write('\n')


if __name__ == '__main__':
    main()
