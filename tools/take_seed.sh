#!/bin/bash
# take_seed.sh <ID> <round-suffix>: confirm the sub-agent's change for <ID> (from /tmp/wt/out_<ID>), store it as
# seeded/<ID>_<suffix>, run the property's quick check against it, and remove the sub-agent's scratch worktree.
ID=$1; R=$2
/venv/bin/python /verif/tools/confirm_seed.py $ID /tmp/wt/out_$ID ${ID}_$R | tail -12
if [ -d /verif/seeded/${ID}_$R ]; then
  /venv/bin/python /verif/tools/run_seeded.py ${ID}_$R
  git -C /repo worktree remove --force /tmp/wt/$ID 2>/dev/null; rm -rf /tmp/wt/$ID
fi
