#!/venv/bin/python
"""Runs every kept seeded change (/verif/seeded/<id>/patch.diff) against its property's quick check (and optionally
others) in a scratch worktree and prints / records which checks catch it."""
import json
import os
import subprocess
import sys

root = '/verif/seeded'
only = sys.argv[1:]
rows = []
for name in sorted(os.listdir(root)):
    d = os.path.join(root, name)
    if not os.path.isdir(d) or (only and name not in only) or not os.path.exists(os.path.join(d, 'meta.json')):
        continue
    meta = json.load(open(os.path.join(d, 'meta.json')))
    pid = meta['property']
    if meta.get('detected_by'):
        pid = meta['detected_by'][0]      # the change breaks another property than the one it was written for (see its note)
    r = subprocess.run(['/venv/bin/python', '/verif/tools/mutcheck.py', '--no-tests', os.path.join(d, 'patch.diff'), pid],
                       capture_output=True, text=True)
    line = [l for l in r.stdout.splitlines() if l.startswith(pid + ' exit=')]
    sigs = [l.strip()[len('signature: '):] for l in r.stdout.splitlines() if l.strip().startswith('signature:')]
    status = line[0].split()[-1] if line else 'ERROR: ' + r.stdout[-200:]
    meta['quick_check_result'] = {'check': pid, 'status': status, 'signatures': sigs[:4]}
    json.dump(meta, open(os.path.join(d, 'meta.json'), 'w'), indent=1)
    rows.append((name, pid, status, sigs[:1]))
    print(name, pid, status, sigs[:1], flush=True)
