#!/venv/bin/python
"""Single entry point:  check.py <ID> [--tier quick|thorough] [--replay FILE]

Exit 0: property held on everything explored (known findings are printed, not failed).
Exit 1: a violation not listed in known_findings.json (VIOLATION line printed).
Exit 2: harness error (also prints a VIOLATION line so nobody mistakes it for a pass).
"""
import argparse
import importlib
import os
import sys

HERE = os.path.dirname(os.path.abspath(__file__))


def main():
    ap = argparse.ArgumentParser()
    ap.add_argument('pid')
    ap.add_argument('--tier', default=os.environ.get('VERIF_TIER') or 'quick', choices=['quick', 'thorough'])
    ap.add_argument('--replay')
    ap.add_argument('--shard', action='store_true', help='with --replay: re-run the whole shard (history-dependent cases)')
    args = ap.parse_args()
    seed = int(os.environ.get('VERIF_SEED', '0') or 0)

    # Own the interpreter's hash randomisation: picotool builds its matcher table from a set.
    want = str(seed % 4294967295)
    if os.environ.get('PYTHONHASHSEED') != want:
        env = dict(os.environ)
        env['PYTHONHASHSEED'] = want
        env['PYTHONDONTWRITEBYTECODE'] = '1'
        os.execve(sys.executable, [sys.executable] + sys.argv, env)

    sys.path.insert(0, HERE)
    from lib import core
    core.bind_repo()
    pid = args.pid.upper()
    mod = importlib.import_module('props.' + pid.lower())
    if args.replay:
        sys.exit(core.do_replay(pid, mod, args.replay, shard_mode=args.shard))
    sys.exit(core.run_property(pid, mod, args.tier, seed))


if __name__ == '__main__':
    main()
