"""E4 — independent reference codecs, written from the PICO-8 format descriptions
(pico-8 wiki "P8FileFormat", "P8PNGFileFormat", "Memory"), not from picotool's code.

Nothing in here imports pico8.
"""
import struct
import zlib

# ---------------------------------------------------------------- memory map
GFX = (0x0000, 0x2000)
MAP = (0x2000, 0x3000)
GFF = (0x3000, 0x3100)
MUSIC = (0x3100, 0x3200)
SFX = (0x3200, 0x4300)
CODE = (0x4300, 0x8000)
VERSION_ADDR = 0x8000
REGION_ORDER = [('gfx', GFX), ('map', MAP), ('gff', GFF), ('music', MUSIC), ('sfx', SFX)]
DATA_END = 0x4300

HEX = '0123456789abcdef'


def hx(b):
    return HEX[b >> 4] + HEX[b & 15]


# ---------------------------------------------------------------- .p8 section text codecs
def gfx_rows(mem):
    """gfx/label: one text row per 64 bytes; each byte is two pixels, LEFT pixel in the LOW nibble;
    text shows pixels in screen order (left first)."""
    rows = []
    for r in range(len(mem) // 64):
        s = []
        for b in mem[r * 64:(r + 1) * 64]:
            s.append(HEX[b & 15])
            s.append(HEX[b >> 4])
        rows.append(''.join(s))
    return rows


def gfx_from_rows(rows):
    out = bytearray()
    for row in rows:
        assert len(row) == 128, len(row)
        for i in range(0, 128, 2):
            out.append(int(row[i], 16) | (int(row[i + 1], 16) << 4))
    return bytes(out)


def hex_rows(mem, per_row):
    return [''.join(hx(b) for b in mem[i:i + per_row]) for i in range(0, len(mem), per_row)]


def hex_from_rows(rows):
    return bytes(int(row[i:i + 2], 16) for row in rows for i in range(0, len(row), 2))


def sfx_rows(mem):
    """64 rows; RAM: 32 little-endian note words then 4 bytes (editor mode, speed, loop start, loop end).
    note word: bits 0-5 pitch, 6-8 waveform, 9-11 volume, 12-14 effect, 15 custom-instrument.
    text: 4 header bytes as hex, then per note: pitch (2 digits), waveform|custom<<3 (1), volume (1), effect (1)."""
    rows = []
    for i in range(64):
        blk = mem[i * 68:(i + 1) * 68]
        s = [hx(blk[64]), hx(blk[65]), hx(blk[66]), hx(blk[67])]
        for n in range(32):
            w = blk[2 * n] | (blk[2 * n + 1] << 8)
            pitch = w & 0x3f
            wave = (w >> 6) & 7
            vol = (w >> 9) & 7
            eff = (w >> 12) & 7
            custom = (w >> 15) & 1
            s.append(hx(pitch) + HEX[wave | (custom << 3)] + HEX[vol] + HEX[eff])
        rows.append(''.join(s))
    return rows


def sfx_from_rows(rows):
    out = bytearray()
    for row in rows:
        assert len(row) == 168, len(row)
        hdr = [int(row[i:i + 2], 16) for i in (0, 2, 4, 6)]
        notes = bytearray()
        for n in range(32):
            f = row[8 + 5 * n: 13 + 5 * n]
            pitch = int(f[0:2], 16)
            wv = int(f[2], 16)
            vol = int(f[3], 16)
            eff = int(f[4], 16)
            w = (pitch & 0x3f) | ((wv & 7) << 6) | ((vol & 7) << 9) | ((eff & 7) << 12) | ((wv >> 3) << 15)
            notes.append(w & 0xff)
            notes.append(w >> 8)
        out += notes + bytes(hdr)
    return bytes(out)


def music_rows(mem):
    """64 rows 'ff aabbccdd': flags bit0 = loop start (bit 7 of byte 0), bit1 = loop end (bit 7 of byte 1),
    bit2 = stop (bit 7 of byte 2); channel bytes are the low 7 bits."""
    rows = []
    for i in range(64):
        b = mem[i * 4:(i + 1) * 4]
        flags = (b[0] >> 7) | ((b[1] >> 7) << 1) | ((b[2] >> 7) << 2)
        rows.append(hx(flags) + ' ' + ''.join(hx(x & 0x7f) for x in b))
    return rows


def music_from_rows(rows):
    out = bytearray()
    for row in rows:
        fl, ch = row.split(' ')
        flags = int(fl, 16)
        c = [int(ch[i:i + 2], 16) for i in (0, 2, 4, 6)]
        out.append(c[0] | ((flags & 1) << 7))
        out.append(c[1] | (((flags >> 1) & 1) << 7))
        out.append(c[2] | (((flags >> 2) & 1) << 7))
        out.append(c[3])
    return bytes(out)


# ---------------------------------------------------------------- .p8 file (structure only; text is bytes)
P8_HEADER = b'pico-8 cartridge // http://www.pico-8.com\n'


class P8Parse:
    pass


def parse_p8(data):
    """Splits a .p8 file into version and raw section lines (bytes, without the newline)."""
    if not data.startswith(P8_HEADER):
        raise ValueError('bad header')
    rest = data[len(P8_HEADER):]
    nl = rest.index(b'\n')
    vline = rest[:nl]
    if not vline.startswith(b'version ') or not vline[8:].isdigit():
        raise ValueError('bad version line %r' % vline)
    r = P8Parse()
    r.version = int(vline[8:])
    r.sections = {}
    r.order = []
    body = rest[nl + 1:]
    r.ends_with_newline = body.endswith(b'\n') or body == b''
    lines = body.split(b'\n')
    if lines and lines[-1] == b'':
        lines.pop()
    cur = None
    r.preamble = []
    for ln in lines:
        if (len(ln) > 4 and ln.startswith(b'__') and ln.endswith(b'__') and
                all(48 <= c <= 57 or 65 <= c <= 90 or 97 <= c <= 122 or c == 95 for c in ln[2:-2])):
            cur = ln[2:-2].decode('ascii')
            if cur in r.sections:
                raise ValueError('duplicate section ' + cur)
            r.sections[cur] = []
            r.order.append(cur)
        elif cur is None:
            r.preamble.append(ln)
        else:
            r.sections[cur].append(ln)
    return r


def p8_regions(parse):
    """Decodes the data sections of a parsed .p8 into region bytes (missing sections -> None)."""
    def rows(name):
        if name not in parse.sections:
            return None
        return [ln.decode('ascii') for ln in parse.sections[name] if ln.strip() != b'']
    out = {}
    g = rows('gfx')
    out['gfx'] = gfx_from_rows(g) if g is not None else None
    lb = rows('label')
    out['label'] = gfx_from_rows(lb) if lb is not None else None
    for name in ('gff', 'map'):
        rr = rows(name)
        out[name] = hex_from_rows(rr) if rr is not None else None
    s = rows('sfx')
    out['sfx'] = sfx_from_rows(s) if s is not None else None
    m = rows('music')
    out['music'] = music_from_rows(m) if m is not None else None
    return out


# ---------------------------------------------------------------- PNG decoder
PNG_SIG = b'\x89PNG\r\n\x1a\n'


class PngError(Exception):
    pass


def png_decode(data):
    """Minimal strict PNG decoder: 8-bit RGB/RGBA, non-interlaced. Returns (w, h, planes, rows)."""
    if data[:8] != PNG_SIG:
        raise PngError('signature')
    pos = 8
    chunks = []
    while pos < len(data):
        if pos + 8 > len(data):
            raise PngError('truncated chunk header')
        (ln,) = struct.unpack('>I', data[pos:pos + 4])
        typ = data[pos + 4:pos + 8]
        body = data[pos + 8:pos + 8 + ln]
        if len(body) != ln or pos + 12 + ln > len(data):
            raise PngError('truncated chunk body')
        (crc,) = struct.unpack('>I', data[pos + 8 + ln:pos + 12 + ln])
        if zlib.crc32(typ + body) & 0xffffffff != crc:
            raise PngError('bad crc in %r' % typ)
        chunks.append((typ, body))
        pos += 12 + ln
        if typ == b'IEND':
            break
    if pos != len(data):
        raise PngError('garbage after IEND')
    if not chunks or chunks[0][0] != b'IHDR' or chunks[-1][0] != b'IEND':
        raise PngError('chunk order')
    w, h, depth, ctype, comp, filt, inter = struct.unpack('>IIBBBBB', chunks[0][1])
    if depth != 8 or ctype not in (2, 6) or comp != 0 or filt != 0 or inter != 0:
        raise PngError('unsupported format depth=%d ctype=%d interlace=%d' % (depth, ctype, inter))
    planes = 4 if ctype == 6 else 3
    raw = zlib.decompress(b''.join(b for t, b in chunks if t == b'IDAT'))
    stride = w * planes
    if len(raw) != h * (stride + 1):
        raise PngError('image data size %d != %d' % (len(raw), h * (stride + 1)))
    rows = []
    prev = bytearray(stride)
    p = 0
    for _ in range(h):
        ft = raw[p]
        line = bytearray(raw[p + 1:p + 1 + stride])
        p += stride + 1
        if ft == 0:
            pass
        elif ft == 1:
            for i in range(planes, stride):
                line[i] = (line[i] + line[i - planes]) & 0xff
        elif ft == 2:
            for i in range(stride):
                line[i] = (line[i] + prev[i]) & 0xff
        elif ft == 3:
            for i in range(stride):
                a = line[i - planes] if i >= planes else 0
                line[i] = (line[i] + ((a + prev[i]) >> 1)) & 0xff
        elif ft == 4:
            for i in range(stride):
                a = line[i - planes] if i >= planes else 0
                b = prev[i]
                c = prev[i - planes] if i >= planes else 0
                pa = abs(b - c)
                pb = abs(a - c)
                pc = abs(a + b - 2 * c)
                pr = a if (pa <= pb and pa <= pc) else (b if pb <= pc else c)
                line[i] = (line[i] + pr) & 0xff
        else:
            raise PngError('bad filter type %d' % ft)
        rows.append(bytes(line))
        prev = line
    return w, h, planes, rows


def png_encode_rgba(w, h, rows):
    """Minimal RGBA8 PNG writer (used to fabricate label images)."""
    def chunk(t, b):
        return struct.pack('>I', len(b)) + t + b + struct.pack('>I', zlib.crc32(t + b) & 0xffffffff)
    raw = b''.join(b'\x00' + bytes(r) for r in rows)
    return (PNG_SIG + chunk(b'IHDR', struct.pack('>IIBBBBB', w, h, 8, 6, 0, 0, 0)) +
            chunk(b'IDAT', zlib.compress(raw, 6)) + chunk(b'IEND', b''))


# ---------------------------------------------------------------- steganography
def stego_unpack(w, h, planes, rows):
    """Pixel i (row-major) carries memory byte i: bits 7-6 in A, 5-4 in R, 3-2 in G, 1-0 in B."""
    if planes != 4:
        raise PngError('cart image must be RGBA')
    out = bytearray()
    for row in rows:
        for x in range(w):
            r, g, b, a = row[4 * x:4 * x + 4]
            out.append(((a & 3) << 6) | ((r & 3) << 4) | ((g & 3) << 2) | (b & 3))
    return bytes(out)


def stego_pack(mem, w, h, rows):
    """Reference packer: returns new RGBA rows with `mem` hidden in the two low bits of each channel."""
    out = []
    for y in range(h):
        row = bytearray(rows[y])
        for x in range(w):
            i = y * w + x
            if i < len(mem):
                v = mem[i]
                row[4 * x + 0] = (row[4 * x + 0] & 0xfc) | ((v >> 4) & 3)
                row[4 * x + 1] = (row[4 * x + 1] & 0xfc) | ((v >> 2) & 3)
                row[4 * x + 2] = (row[4 * x + 2] & 0xfc) | (v & 3)
                row[4 * x + 3] = (row[4 * x + 3] & 0xfc) | ((v >> 6) & 3)
        out.append(bytes(row))
    return out


def split_memory(mem):
    d = {name: bytes(mem[lo:hi]) for name, (lo, hi) in REGION_ORDER}
    d['code_area'] = bytes(mem[CODE[0]:CODE[1]])
    d['version'] = mem[VERSION_ADDR]
    return d


# ---------------------------------------------------------------- :c: compressed code
C_TABLE = b'\x00\n 0123456789abcdefghijklmnopqrstuvwxyz!#%(){}[]<>+=/*:;.,~_'
assert len(C_TABLE) == 60
C_MAGIC = b':c:\x00'
FUTURE1 = b'if(_update60)_update=function()_update60()_update60()end'
FUTURE2 = b'if(_update60)_update=function()_update60()_update_buttons()_update60()end'


class StreamError(Exception):
    pass


def c_items(stream, limit):
    """Parses a :c: stream (after the 8-byte header) into items until `limit` output bytes are produced.
    Yields ('lit', byte) / ('ref', offset, length). Raises StreamError when malformed."""
    i = 0
    produced = 0
    items = []
    while produced < limit:
        if i >= len(stream):
            raise StreamError('stream ends after %d of %d bytes' % (produced, limit))
        b = stream[i]
        i += 1
        if b == 0:
            if i >= len(stream):
                raise StreamError('escape at end of stream')
            items.append(('lit', stream[i]))
            i += 1
            produced += 1
        elif b < 0x3c:
            items.append(('lit', C_TABLE[b]))
            produced += 1
        else:
            if i >= len(stream):
                raise StreamError('reference cut at end of stream')
            b2 = stream[i]
            i += 1
            off = (b - 0x3c) * 16 + (b2 & 15)
            ln = (b2 >> 4) + 2
            items.append(('ref', off, ln))
            produced += ln
    return items, i


def c_wellformed(stream, limit):
    """Checks the well-formedness rules of the property: every reference has length 3..17 and
    1 <= offset <= bytes produced so far. Returns a list of problems (empty = well formed)."""
    problems = []
    try:
        items, used = c_items(stream, limit)
    except StreamError as e:
        return ['malformed: %s' % e]
    produced = 0
    for it in items:
        if it[0] == 'lit':
            produced += 1
        else:
            _, off, ln = it
            if not 3 <= ln <= 17:
                problems.append('reference length %d outside 3..17' % ln)
            if off < 1:
                problems.append('zero offset')
            elif off > produced:
                problems.append('offset %d points before start (only %d produced)' % (off, produced))
            produced += ln
    return problems


def c_decode(stream, limit):
    """Reference decoder: byte-wise copy (overlapping references replicate), stops at `limit` bytes."""
    out = bytearray()
    items, used = c_items(stream, limit)
    for it in items:
        if it[0] == 'lit':
            out.append(it[1])
        else:
            _, off, ln = it
            if off < 1 or off > len(out):
                raise StreamError('bad offset %d at %d' % (off, len(out)))
            for _ in range(ln):
                out.append(out[-off])
    return bytes(out[:limit]), used


def code_area_decode(area, version=None):
    """Decodes the 0x3d00-byte code area: ':c:\\0' + len(2, big endian) + 2 zero bytes + stream, or raw
    NUL-terminated text. Returns (text, 'compressed'|'raw')."""
    if area[:4] == C_MAGIC:
        ln = (area[4] << 8) | area[5]
        text, used = c_decode(area[8:], ln)
        return text, 'compressed'
    if area[:4] == b'\x00pxa':
        raise StreamError('pxa format not supported by the reference')
    end = area.find(b'\x00')
    if end < 0:
        end = len(area)
    return bytes(area[:end]), 'raw'


def strip_future(text):
    """PICO-8 removes its 0.1.7 compatibility suffix after decompression."""
    for f in (FUTURE1, FUTURE2):
        if text.endswith(f):
            text = text[:-len(f)]
            if text.endswith(b'\n'):
                text = text[:-1]
    return text
