"""E4 — plain-array reference models of the documented section-accessor semantics.

The model is one dict of bytearrays {gfx, map, gff, music, sfx}; every function implements the
docstring of the corresponding picotool accessor (clipping, TRANSPARENT, tile 0 drawn empty, silent
channel = 0x41+channel). Nothing in here imports pico8.
"""
TRANSPARENT = 16


def new_mem(fills):
    return {k: bytearray(v) for k, v in fills.items()}


def copy_mem(m):
    return {k: bytearray(v) for k, v in m.items()}


# ---------------------------------------------------------------- gfx
def px_get(m, x, y):
    b = m['gfx'][y * 64 + x // 2]
    return (b & 15) if x % 2 == 0 else (b >> 4)


def px_set(m, x, y, v):
    i = y * 64 + x // 2
    b = m['gfx'][i]
    m['gfx'][i] = ((b & 0xf0) | v) if x % 2 == 0 else ((b & 0x0f) | (v << 4))


def get_sprite(m, id, tw=1, th=1):
    col, row = id % 16, id // 16
    out = []
    for y in range(th * 8):
        r = bytearray()
        for x in range(tw * 8):
            X, Y = col * 8 + x, row * 8 + y
            # whole tiles off the 16x16 sheet read as zero
            if X > 127 or Y > 127:
                r.append(0)
            else:
                r.append(px_get(m, X, Y))
        out.append(r)
    return out


def set_sprite(m, id, sprite, xo=0, yo=0):
    col, row = id % 16, id // 16
    for y, r in enumerate(sprite):
        for x, v in enumerate(r):
            if v == TRANSPARENT:
                continue
            X, Y = col * 8 + xo + x, row * 8 + yo + y
            if X > 127 or Y > 127:
                continue          # clipped
            px_set(m, X, Y, v)


# ---------------------------------------------------------------- map (rows 32-63 live at gfx 0x1000..)
def get_cell(m, x, y):
    if y <= 31:
        return m['map'][y * 128 + x]
    return m['gfx'][0x1000 + (y - 32) * 128 + x]


def set_cell(m, x, y, v):
    if y <= 31:
        m['map'][y * 128 + x] = v
    else:
        m['gfx'][0x1000 + (y - 32) * 128 + x] = v


def get_rect_tiles(m, x, y, w=1, h=1):
    out = []
    for ty in range(y, y + h):
        r = bytearray()
        for tx in range(x, x + w):
            r.append(0 if (tx > 127 or ty > 63) else get_cell(m, tx, ty))
        out.append(r)
    return out


def set_rect_tiles(m, rect, x, y):
    for dy, r in enumerate(rect):
        for dx, v in enumerate(r):
            if x + dx > 127 or y + dy > 63:
                continue
            set_cell(m, x + dx, y + dy, v)


def get_rect_pixels(m, x, y, w=1, h=1):
    tiles = get_rect_tiles(m, x, y, w, h)
    out = []
    for trow in tiles:
        rows = [bytearray() for _ in range(8)]
        for t in trow:
            spr = [bytearray(8)] * 8 if t == 0 else get_sprite(m, t)
            for i in range(8):
                rows[i].extend(spr[i])
        out.extend(rows)
    return out


# ---------------------------------------------------------------- gff
def get_flags(m, id, flags):
    return m['gff'][id] & flags


def set_flags(m, id, flags):
    m['gff'][id] |= flags & 0xff


def clear_flags(m, id, flags):
    m['gff'][id] &= ~flags & 0xff


def reset_flags(m, id, flags):
    m['gff'][id] = flags & 0xff


# ---------------------------------------------------------------- sfx
def get_note(m, id, note):
    w = m['sfx'][id * 68 + note * 2] | (m['sfx'][id * 68 + note * 2 + 1] << 8)
    pitch = w & 0x3f
    wave = ((w >> 6) & 7) | (((w >> 15) & 1) << 3)
    vol = (w >> 9) & 7
    eff = (w >> 12) & 7
    return (pitch, wave, vol, eff)


def set_note(m, id, note, pitch=None, waveform=None, volume=None, effect=None):
    p, wv, v, e = get_note(m, id, note)
    if pitch is not None:
        p = pitch
    if waveform is not None:
        wv = waveform
    if volume is not None:
        v = volume
    if effect is not None:
        e = effect
    w = p | ((wv & 7) << 6) | (v << 9) | (e << 12) | ((wv >> 3) << 15)
    m['sfx'][id * 68 + note * 2] = w & 0xff
    m['sfx'][id * 68 + note * 2 + 1] = w >> 8


def sfx_get_properties(m, id):
    return tuple(m['sfx'][id * 68 + 64:id * 68 + 68])


def sfx_set_properties(m, id, editor_mode=None, note_duration=None, loop_start=None, loop_end=None):
    for k, v in enumerate((editor_mode, note_duration, loop_start, loop_end)):
        if v is not None:
            m['sfx'][id * 68 + 64 + k] = v


# ---------------------------------------------------------------- music
def get_channel(m, id, ch):
    p = m['music'][id * 4 + ch] & 0x7f
    return None if p > 63 else p


def set_channel(m, id, ch, pattern):
    if pattern is None:
        pattern = 0x41 + ch
    i = id * 4 + ch
    m['music'][i] = (m['music'][i] & 0x80) | pattern


def music_get_properties(m, id):
    return tuple(bool(m['music'][id * 4 + k] & 0x80) for k in range(3))


def music_set_properties(m, id, begin=None, end=None, stop=None):
    for k, v in enumerate((begin, end, stop)):
        if v is not None:
            i = id * 4 + k
            m['music'][i] = (m['music'][i] & 0x7f) | (0x80 if v else 0)
