"""E1 — reference lexer for the PICO-8 Lua dialect picotool parses.

A hand-written maximal-munch scanner that follows Lua 5.2 llex.c (read_numeral, read_string,
read_long_string, skip_sep) plus the PICO-8 extensions of picotool's dialect.  It shares no mechanism
with pico8.lua.lexer (no regular-expression table) and imports nothing from pico8.

lex(src) -> list of Tok, or raises Reject when the text is not lexically valid in the dialect
(malformed numeral, bad escape, unterminated string/comment, stray character): for rejected texts the
checks demand nothing.
"""
from fractions import Fraction

KEYWORDS = frozenset([
    b'and', b'break', b'do', b'else', b'elseif', b'end', b'false', b'for', b'function', b'goto', b'if', b'in',
    b'local', b'nil', b'not', b'or', b'repeat', b'return', b'then', b'true', b'until', b'while'])

# exactly picotool's dialect set (README / lexer docs): Lua 5.2 + PICO-8 operators and shorthands
SYMBOLS = [
    b'+=', b'-=', b'*=', b'/=', b'%=', b'..=', b'==', b'~=', b'!=', b'<=', b'>=',
    b'&', b'|', b'^^', b'~', b'<<>', b'>>>', b'>><', b'<<', b'>>', b'\\',
    b'+', b'-', b'*', b'/', b'%', b'^', b'#', b'@', b'$', b'<', b'>', b'=',
    b'(', b')', b'{', b'}', b'[', b']', b';', b':', b',', b'...', b'..', b'.', b'::', b'?']
_SYM_BY_LEN = sorted(SYMBOLS, key=lambda s: -len(s))
_MAXSYM = max(len(s) for s in SYMBOLS)
_SYMSET = frozenset(SYMBOLS)

SIMPLE_ESCAPES = {
    ord('a'): 7, ord('b'): 8, ord('f'): 12, ord('n'): 10, ord('r'): 13, ord('t'): 9, ord('v'): 11,
    ord('\\'): 92, ord('"'): 34, ord("'"): 39,
    # P8SCII control-code escapes
    ord('*'): 1, ord('#'): 2, ord('-'): 3, ord('|'): 4, ord('+'): 5, ord('^'): 6,
}


class Reject(Exception):
    def __init__(self, reason, pos):
        Exception.__init__(self, '%s at %d' % (reason, pos))
        self.reason = reason
        self.pos = pos


class Tok(object):
    __slots__ = ('kind', 'text', 'start', 'end', 'line', 'col', 'value', 'level', 'quote')

    def __init__(self, kind, text, start, end, line, col, value=None, level=None, quote=None):
        self.kind = kind        # space newline comment keyword name number string symbol
        self.text = text        # source spelling
        self.start = start
        self.end = end
        self.line = line        # 0-based
        self.col = col          # 0-based, bytes
        self.value = value      # number: Fraction, string: decoded bytes
        self.level = level      # long bracket level (strings/comments) or None
        self.quote = quote

    def __repr__(self):
        return 'Tok(%s %r @%d:%d)' % (self.kind, self.text, self.line, self.col)


def is_name_start(c):
    return (65 <= c <= 90) or (97 <= c <= 122) or c == 95 or c >= 0x80


def is_name_char(c):
    return is_name_start(c) or (48 <= c <= 57)


def is_digit(c):
    return 48 <= c <= 57


def is_xdigit(c):
    return (48 <= c <= 57) or (65 <= c <= 70) or (97 <= c <= 102)


def _long_open(src, i):
    """If src[i:] starts a long bracket '[' '='* '[', returns (level, index after it), else None."""
    n = len(src)
    if i >= n or src[i] != 91:
        return None
    j = i + 1
    while j < n and src[j] == 61:
        j += 1
    if j < n and src[j] == 91:
        return (j - i - 1, j + 1)
    return None


def _long_close(src, i, level):
    """Index of the matching close bracket start at or after i, or -1."""
    close = b']' + b'=' * level + b']'
    return src.find(close, i)


def parse_number(text):
    """Exact value of a numeral spelling, or None if it is not a valid numeral of the dialect."""
    t = text.lower()
    if t[:2] == b'0x':
        base, body, digs = 16, t[2:], b'0123456789abcdef'
    elif t[:2] == b'0b':
        base, body, digs = 2, t[2:], b'01'
    else:
        base, body, digs = 10, t, b'0123456789'
    exp = 0
    if base == 10:
        k = body.find(b'e')
        if k >= 0:
            e = body[k + 1:]
            body = body[:k]
            sign = 1
            if e[:1] in (b'+', b'-'):
                sign = -1 if e[:1] == b'-' else 1
                e = e[1:]
            if not e or not all(48 <= c <= 57 for c in e):
                return None
            exp = sign * int(e)
    if body.count(b'.') > 1:
        return None
    ip, _, fp = body.partition(b'.')
    if not ip and not fp:
        return None
    if base != 10 and b'.' in body and not fp:
        return None     # '0x8.' : outside the dialect
    if not all(c in digs for c in ip) or not all(c in digs for c in fp):
        return None
    v = Fraction(int(ip, base) if ip else 0)
    if fp:
        v += Fraction(int(fp, base), base ** len(fp))
    if exp:
        v *= Fraction(10) ** exp
    return v


def lex(src, numeral_concat=True):
    """numeral_concat=False: stock Lua read_numeral (a numeral swallows a following '..' and is then malformed) - used to
    judge text a writer GENERATES, which should be valid under both readings."""
    src = bytes(src)
    n = len(src)
    toks = []
    i = 0
    line = 0
    linestart = 0     # offset of the first byte of the current line

    def advance_lines(a, b):
        """Accounts for newline sequences inside src[a:b]."""
        nonlocal line, linestart
        k = a
        while k < b:
            c = src[k]
            if c == 13 and k + 1 < b and src[k + 1] == 10:
                k += 2
                line += 1
                linestart = k
            elif c == 10 or c == 13:
                k += 1
                line += 1
                linestart = k
            else:
                k += 1

    while i < n:
        c = src[i]
        start = i
        tl, tc = line, i - linestart
        # ---- whitespace
        if c == 32 or c == 9:
            j = i
            while j < n and (src[j] == 32 or src[j] == 9):
                j += 1
            toks.append(Tok('space', src[i:j], i, j, tl, tc))
            i = j
            continue
        # ---- newline
        if c == 13 or c == 10:
            j = i + 2 if (c == 13 and i + 1 < n and src[i + 1] == 10) else i + 1
            toks.append(Tok('newline', src[i:j], i, j, tl, tc))
            i = j
            line += 1
            linestart = i
            continue
        # ---- comments
        if c == 45 and i + 1 < n and src[i + 1] == 45:
            lo = _long_open(src, i + 2)
            if lo is not None:
                level, body = lo
                k = _long_close(src, body, level)
                if k < 0:
                    raise Reject('unterminated long comment', i)
                j = k + level + 2
                toks.append(Tok('comment', src[i:j], i, j, tl, tc, level=level))
                advance_lines(i, j)
                i = j
                continue
            j = i
            while j < n and src[j] != 10 and src[j] != 13:
                j += 1
            toks.append(Tok('comment', src[i:j], i, j, tl, tc))
            i = j
            continue
        if c == 47 and i + 1 < n and src[i + 1] == 47:
            j = i
            while j < n and src[j] != 10 and src[j] != 13:
                j += 1
            toks.append(Tok('comment', src[i:j], i, j, tl, tc))
            i = j
            continue
        # ---- long strings
        if c == 91:
            lo = _long_open(src, i)
            if lo is not None:
                level, body = lo
                k = _long_close(src, body, level)
                if k < 0:
                    raise Reject('unterminated long string', i)
                j = k + level + 2
                raw = src[body:k]
                val = raw
                if val[:2] == b'\r\n':
                    val = val[2:]
                elif val[:1] in (b'\n', b'\r'):
                    val = val[1:]
                toks.append(Tok('string', src[i:j], i, j, tl, tc, value=val, level=level))
                advance_lines(i, j)
                i = j
                continue
        # ---- quoted strings
        if c == 34 or c == 39:
            j = i + 1
            out = bytearray()
            while True:
                if j >= n:
                    raise Reject('unterminated string', i)
                d = src[j]
                if d == c:
                    j += 1
                    break
                if d == 10 or d == 13:
                    raise Reject('raw newline in quoted string', j)
                if d != 92:
                    out.append(d)
                    j += 1
                    continue
                # escape
                if j + 1 >= n:
                    raise Reject('unterminated string', i)
                e = src[j + 1]
                if e in SIMPLE_ESCAPES:
                    out.append(SIMPLE_ESCAPES[e])
                    j += 2
                elif e == 10 or e == 13:
                    out.append(10)
                    j += 2
                    # line ends of the dialect are LF, CR LF and lone CR (as everywhere else in this lexer):
                    # LF CR is a line end followed by a raw CR, which a short string cannot hold
                    if e == 13 and j < n and src[j] == 10:
                        j += 1
                elif e == 120:   # \xhh
                    if j + 3 < n + 0 and is_xdigit(src[j + 2]) and j + 3 < n and is_xdigit(src[j + 3]):
                        out.append(int(src[j + 2:j + 4], 16))
                        j += 4
                    else:
                        raise Reject('bad \\x escape', j)
                elif e == 122:   # \z
                    j += 2
                    while j < n and src[j] in (32, 9, 10, 13, 11, 12):
                        j += 1
                elif is_digit(e):
                    k = j + 1
                    v = 0
                    cnt = 0
                    while k < n and cnt < 3 and is_digit(src[k]):
                        v = v * 10 + (src[k] - 48)
                        k += 1
                        cnt += 1
                    if v > 255:
                        raise Reject('decimal escape too large', j)
                    out.append(v)
                    j = k
                else:
                    raise Reject('invalid escape \\%c' % e, j)
            toks.append(Tok('string', src[i:j], i, j, tl, tc, value=bytes(out), quote=bytes([c])))
            advance_lines(i, j)
            i = j
            continue
        # ---- numerals (read_numeral: swallow hex digits, dots, exponent marks with sign)
        if is_digit(c) or (c == 46 and i + 1 < n and is_digit(src[i + 1])):
            j = i + 1
            expo = b'eE'
            if c == 48 and j < n and src[j] in b'xX':
                expo = b'pP'
                j += 1
            elif c == 48 and j < n and src[j] in b'bB':
                expo = b''
                j += 1
            while j < n:
                d = src[j]
                if d in expo:
                    j += 1
                    if j < n and src[j] in b'+-':
                        j += 1
                    continue
                if numeral_concat and d == 46 and j + 1 < n and src[j + 1] == 46:
                    # PICO-8 rule of the dialect (picotool's decimal pattern carries it as '(?!\.)', its hex/binary
                    # patterns by requiring a digit after the point): a numeral never swallows the concatenation
                    # operator, so '1..x' and '0x10..x' are numeral, '..', name
                    break
                if is_xdigit(d) or d == 46:
                    j += 1
                else:
                    break
            text = src[i:j]
            v = parse_number(text)
            if v is None:
                raise Reject('malformed number %r' % text, i)
            toks.append(Tok('number', text, i, j, tl, tc, value=v))
            i = j
            continue
        # ---- names / keywords
        if is_name_start(c):
            j = i + 1
            while j < n and is_name_char(src[j]):
                j += 1
            text = src[i:j]
            toks.append(Tok('keyword' if text in KEYWORDS else 'name', text, i, j, tl, tc))
            i = j
            continue
        # ---- '::' only occurs in the label shape ::Name:: (no inner blanks) in this dialect
        if c == 58 and i + 1 < n and src[i + 1] == 58:
            # label shape  '::' blanks* Name blanks* '::'   (blanks = space / tab, on one line)
            j = i + 2
            while j < n and src[j] in (32, 9):
                j += 1
            if j < n and is_name_start(src[j]):
                k = j + 1
                while k < n and is_name_char(src[k]):
                    k += 1
                m = k
                while m < n and src[m] in (32, 9):
                    m += 1
                if src[m:m + 2] == b'::' and src[j:k] not in KEYWORDS:
                    toks.append(Tok('symbol', b'::', i, i + 2, tl, tc))
                    if j > i + 2:
                        toks.append(Tok('space', src[i + 2:j], i + 2, j, tl, tc + 2))
                    toks.append(Tok('name', src[j:k], j, k, tl, tc + (j - i)))
                    if m > k:
                        toks.append(Tok('space', src[k:m], k, m, tl, tc + (k - i)))
                    toks.append(Tok('symbol', b'::', m, m + 2, tl, tc + (m - i)))
                    i = m + 2
                    continue
            raise Reject('"::" outside the label shape :: Name ::', i)
        # ---- symbols, longest match
        for ln in range(min(_MAXSYM, n - i), 0, -1):
            if src[i:i + ln] in _SYMSET:
                toks.append(Tok('symbol', src[i:i + ln], i, i + ln, tl, tc))
                i += ln
                break
        else:
            raise Reject('unexpected character %#x' % c, i)
    return toks


def significant(toks):
    return [t for t in toks if t.kind not in ('space', 'newline', 'comment')]


def sig_key(t):
    """Comparison key of a significant token: numbers by value, strings by decoded bytes, rest by spelling."""
    if t.kind == 'number':
        return ('number', t.value)
    if t.kind == 'string':
        return ('string', t.value)
    return (t.kind, t.text)


# ---------------------------------------------------------------- adapter for picotool tokens
def adapt_picotool(tokens):
    """picotool token objects -> list of dicts comparable with Tok (labels expanded, '?' as symbol)."""
    from pico8.lua import lexer
    out = []
    for t in tokens:
        line, col = t._lineno, t._charno
        if isinstance(t, lexer.TokSpace):
            out.append(('space', t._data, line, col, t))
        elif isinstance(t, lexer.TokNewline):
            out.append(('newline', t._data, line, col, t))
        elif isinstance(t, lexer.TokComment):
            out.append(('comment', t._data, line, col, t))
        elif isinstance(t, lexer.TokKeyword):
            out.append(('keyword', t._data, line, col, t))
        elif isinstance(t, lexer.TokLabel):
            d = t._data
            inner = d[2:-2]
            lead = len(inner) - len(inner.lstrip(b' \t'))
            name = inner.strip(b' \t')
            c0 = 0 if col is None else col
            out.append(('symbol', b'::', line, col, t))
            if lead:
                out.append(('space', inner[:lead], line, None if col is None else c0 + 2, t))
            out.append(('name', name, line, None if col is None else c0 + 2 + lead, t))
            if len(inner) > lead + len(name):
                out.append(('space', inner[lead + len(name):], line, None if col is None else c0 + 2 + lead + len(name), t))
            out.append(('symbol', b'::', line, None if col is None else c0 + len(d) - 2, t))
        elif isinstance(t, lexer.TokName):
            if t._data == b'?':
                out.append(('symbol', b'?', line, col, t))
            else:
                out.append(('name', t._data, line, col, t))
        elif isinstance(t, lexer.TokNumber):
            out.append(('number', t._data, line, col, t))
        elif isinstance(t, lexer.TokString):
            out.append(('string', t._data, line, col, t))
        elif isinstance(t, lexer.TokSymbol):
            out.append(('symbol', t._data, line, col, t))
        else:
            out.append(('unknown', t._data, line, col, t))
    return out
