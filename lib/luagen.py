"""E2 — the dialect grammar as data; derivation enumerator; adjacency fixpoint; witnesses; layouts.

Everything the Lua-language checks need to know about a generated program comes from its *derivation*
(never from a second parser): the significant-token list, the neutral syntax skeleton, the extents of
line-scoped constructs, the block/bracket depth at each token, and the constraints on each gap.

Grammar symbols: nonterminals are lower-case strings; terminals are ('T', class) tuples. 'NL' is a
pseudo-terminal: "the line ends here" (mandatory newline in the following gap unless at end of input).
"""
import functools
import itertools

from lib import reflex


def T(c):
    return ('T', c)


KW = ['and', 'break', 'do', 'else', 'elseif', 'end', 'false', 'for', 'function', 'goto', 'if', 'in', 'local', 'nil',
      'not', 'or', 'repeat', 'return', 'then', 'true', 'until', 'while']
BINOPS = ['&', '|', '^^', '<<', '>>', '>>>', '<<>', '>><', '\\', '<', '>', '<=', '>=', '~=', '!=', '==', '..', '+', '-',
          '*', '/', '%', '^', 'and', 'or']
UNOPS = ['-', '#', '~', '@', '%', '$', 'not']
ASSIGNOPS = ['=', '+=', '-=', '*=', '/=', '%=', '..=']

# terminal class -> spelling (names get their spelling from the occurrence index unless the class fixes it)
NAME_CLASSES = {'NAME': None, 'NAME_e': b'e1', 'NAME_x': b'xf', 'NAME_b': b'b1', 'NAME_kw': b'do1', 'NAME_kw2': b'endx',
                'NAME_hi': b'\x8ba', 'NAME_builtin': b'print', 'NAME_us': b'_x', 'NAME_kwhi': b'not\x92', 'NAME_kwhi2': b'end\x80'}
NUMBER_CLASSES = {'INT': b'1', 'NUM_dot': b'1.', 'NUM_ldot': b'.5', 'NUM_frac': b'1.5', 'NUM_exp': b'1e5',
                  'NUM_expm': b'2e-3', 'NUM_expp': b'3e+2', 'HEX': b'0x1f', 'HEXU': b'0X2E', 'HEXFRAC': b'0x1.8',
                  'HEXLDOT': b'0x.8', 'BIN': b'0b1', 'BINFRAC': b'0b1.1'}
STRING_CLASSES = {'STR_dq': b'"s"', 'STR_sq': b"'s'", 'STR_long0': b'[[s]]', 'STR_long1': b'[=[s]=]',
                  'STR_esc': b'"\\n\\65\\\\"', 'STR_empty': b'""', 'STR_escx': b'"\\x41\\z  b\\0001"',
                  'STR_hi': b'"\x8b\xff\x10"', 'STR_longml': b'[[a\nb]]'}
NAME_POOL = [b'a', b'b', b'c']

# ---------------------------------------------------------------- the grammar
# nonterminal -> list of (label, [symbols]); the FIRST production of each nonterminal is its default.
G = {}


def rule(nt, label, *syms):
    G.setdefault(nt, []).append((label, [T(s[1:]) if isinstance(s, str) and s.startswith("'") else s for s in syms]))


def q(s):
    return "'" + s


rule('program', 'program', 'block')
rule('block', 'b_empty')
rule('block', 'b_stat', 'stat', 'block')
rule('block', 'b_stat_semi', 'stat', q(';'), 'block')
rule('block', 'b_last', 'laststat')
rule('block', 'b_semi', q(';'), 'block')            # empty statement
rule('block', 'b_last_semi', 'laststat', q(';'))
rule('laststat', 'return', q('return'), 'retvals')
rule('laststat', 'break', q('break'))
rule('retvals', 'rv_none')
rule('retvals', 'rv_list', 'explist')

rule('stat', 'assign', 'varlist', 'assignop', 'explist')
rule('stat', 'callstat', 'call')
rule('stat', 'do', q('do'), 'block', q('end'))
rule('stat', 'while', q('while'), 'exp', q('do'), 'block', q('end'))
rule('stat', 'repeat', q('repeat'), 'block', q('until'), 'exp')
rule('stat', 'if', q('if'), 'exp', q('then'), 'block', 'elifs', 'else_opt', q('end'))
rule('stat', 'shortif', q('if'), q('('), 'exp', q(')'), 'slstats', 'slelse', q('NL'))
rule('stat', 'qprint', q('?'), 'explist', q('NL'))
rule('stat', 'fornum', q('for'), 'Name', q('='), 'exp', q(','), 'exp', 'step_opt', q('do'), 'block', q('end'))
rule('stat', 'forin', q('for'), 'namelist', q('in'), 'explist', q('do'), 'block', q('end'))
rule('stat', 'function', q('function'), 'funcname', 'funcbody')
rule('stat', 'localfunction', q('local'), q('function'), 'Name', 'funcbody')
rule('stat', 'local', q('local'), 'namelist', 'localinit')
rule('stat', 'goto', q('goto'), q('GNAME'))
rule('stat', 'label', q('LABEL'))
rule('stat', 'label', q('LABEL_sp'))

rule('elifs', 'elifs_none')
rule('elifs', 'elifs_more', q('elseif'), 'exp', q('then'), 'block', 'elifs')
rule('else_opt', 'else_none')
rule('else_opt', 'else_some', q('else'), 'block')
rule('slstats', 'sl_one', 'slstat')
rule('slstats', 'sl_more', 'slstat', 'slstats')
rule('slelse', 'slelse_none')
rule('slelse', 'slelse_some', q('else'), 'slstats')
rule('slstat', 'assign', 'varlist_n', 'assignop', 'explist')
rule('slstat', 'callstat', 'call_n')
rule('slstat', 'return', q('return'), 'retvals')
rule('slstat', 'break', q('break'))
rule('slstat', 'goto', q('goto'), q('GNAME'))
rule('slstat', 'qprint', q('?'), 'explist')     # last statement of its line: the arguments run to the line end
rule('step_opt', 'step_none')
rule('step_opt', 'step_some', q(','), 'exp')
rule('funcname', 'funcname', 'Name', 'dotnames', 'method_opt')
rule('dotnames', 'dn_none')
rule('dotnames', 'dn_more', q('.'), 'Name', 'dotnames')
rule('method_opt', 'm_none')
rule('method_opt', 'm_some', q(':'), 'Name')
rule('localinit', 'li_none')
rule('localinit', 'li_some', q('='), 'explist')

for op in ASSIGNOPS:
    rule('assignop', 'op', q(op))
rule('varlist', 'vl_one', 'var')
rule('varlist', 'vl_more', 'var', q(','), 'varlist')
rule('var', 'v_name', 'Name')
rule('var', 'v_index', 'prefixexp', q('['), 'exp', q(']'))
rule('var', 'v_field', 'prefixexp', q('.'), 'Name')
rule('prefixexp', 'p_var', 'var')
rule('prefixexp', 'p_call', 'call')
rule('prefixexp', 'p_paren', q('('), 'exp', q(')'))
rule('call', 'c_call', 'prefixexp', 'args')
rule('call', 'c_method', 'prefixexp', q(':'), 'Name', 'args')
# variants that start with a Name (short-if bodies must not start with '(')
rule('varlist_n', 'vl_one', 'var_n')
rule('varlist_n', 'vl_more', 'var_n', q(','), 'varlist')
rule('var_n', 'v_name', 'Name')
rule('var_n', 'v_index', 'prefixexp_n', q('['), 'exp', q(']'))
rule('var_n', 'v_field', 'prefixexp_n', q('.'), 'Name')
rule('prefixexp_n', 'p_var', 'var_n')
rule('prefixexp_n', 'p_call', 'call_n')
rule('call_n', 'c_call', 'prefixexp_n', 'args')
rule('call_n', 'c_method', 'prefixexp_n', q(':'), 'Name', 'args')

rule('args', 'a_empty', q('('), q(')'))
rule('args', 'a_list', q('('), 'explist', q(')'))
rule('args', 'a_table', 'table')
rule('args', 'a_string', 'String')
rule('explist', 'el_one', 'exp')
rule('explist', 'el_more', 'exp', q(','), 'explist')
rule('namelist', 'nl_one', 'Name')
rule('namelist', 'nl_more', 'Name', q(','), 'namelist')

rule('exp', 'e_prefix', 'prefixexp')
rule('exp', 'e_nil', q('nil'))
rule('exp', 'e_false', q('false'))
rule('exp', 'e_true', q('true'))
rule('exp', 'e_number', 'Number')
rule('exp', 'e_string', 'String')
rule('exp', 'e_dots', q('...'))
rule('exp', 'e_function', q('function'), 'funcbody')
rule('exp', 'e_table', 'table')
rule('exp', 'e_binop', 'exp', 'binop', 'exp')
rule('exp', 'e_unop', 'unop', 'exp')
for op in BINOPS:
    rule('binop', 'op', q(op))
for op in UNOPS:
    rule('unop', 'op', q(op))
rule('funcbody', 'funcbody', q('('), 'parlist', q(')'), 'block', q('end'))
rule('parlist', 'pl_none')
rule('parlist', 'pl_names', 'namelist')
rule('parlist', 'pl_names_dots', 'namelist', q(','), q('...'))
rule('parlist', 'pl_dots', q('...'))
rule('table', 't_empty', q('{'), q('}'))
rule('table', 't_fields', q('{'), 'fieldlist', q('}'))
rule('fieldlist', 'fl_one', 'field')
rule('fieldlist', 'fl_trail', 'field', 'fieldsep')
rule('fieldlist', 'fl_more', 'field', 'fieldsep', 'fieldlist')
rule('fieldsep', 'op', q(','))
rule('fieldsep', 'op', q(';'))
rule('field', 'f_exp', 'exp')
rule('field', 'f_key', q('['), 'exp', q(']'), q('='), 'exp')
rule('field', 'f_name', 'Name', q('='), 'exp')
for c in NAME_CLASSES:
    rule('Name', 'name', q(c))
for c in NUMBER_CLASSES:
    rule('Number', 'number', q(c))
for c in STRING_CLASSES:
    rule('String', 'string', q(c))

NONTERMINALS = list(G)
# operator spellings are a free choice (no deviation cost): every operator appears wherever an operator appears
FREE = {'binop', 'unop', 'assignop', 'fieldsep'}


def is_term(s):
    return isinstance(s, tuple)


def all_terminals():
    out = []
    for nt in G:
        for label, syms in G[nt]:
            for s in syms:
                if is_term(s) and s[1] not in out:
                    out.append(s[1])
    return out


# ---------------------------------------------------------------- trees
# tree node: (nt, prod_index, [children]); terminal leaf: ('T', class)
def leaves(tree, out=None):
    if out is None:
        out = []
    if tree[0] == 'T':
        out.append(tree[1])
    else:
        for ch in tree[2]:
            leaves(ch, out)
    return out


def tree_size(tree):
    if tree[0] == 'T':
        return 0 if tree[1] == 'NL' else 1
    return sum(tree_size(c) for c in tree[2])


# ---------------------------------------------------------------- fixpoints: nullable / FIRST / LAST / ADJ
@functools.lru_cache(None)
def analysis():
    nullable = set()
    first = {nt: set() for nt in G}
    last = {nt: set() for nt in G}
    changed = True
    while changed:
        changed = False
        for nt, prods in G.items():
            for label, syms in prods:
                if nt not in nullable and all((not is_term(s)) and s in nullable for s in syms):
                    nullable.add(nt)
                    changed = True
                for seq, acc in ((syms, first), (list(reversed(syms)), last)):
                    for s in seq:
                        add = {s[1]} if is_term(s) else acc[s]
                        if not add <= acc[nt]:
                            acc[nt] |= add
                            changed = True
                        if is_term(s) or s not in nullable:
                            break
    adj = {}     # (a, b) -> (nt, prod_index, i, j)  (first production position found)
    for nt, prods in G.items():
        for pi, (label, syms) in enumerate(prods):
            for i in range(len(syms)):
                la = {syms[i][1]} if is_term(syms[i]) else last[syms[i]]
                for j in range(i + 1, len(syms)):
                    fb = {syms[j][1]} if is_term(syms[j]) else first[syms[j]]
                    for a in la:
                        for b in fb:
                            adj.setdefault((a, b), []).append((nt, pi, i, j))
                    if is_term(syms[j]) or syms[j] not in nullable:
                        break
    return nullable, first, last, adj


# ---------------------------------------------------------------- shortest derivations (DP by relaxation)
INF = 10 ** 9


@functools.lru_cache(None)
def shortest():
    """min_tree[nt], ending[(nt, a)], starting[(nt, b)] : smallest derivation trees (by token count)."""
    nullable, first, last, adj = analysis()
    best = {}       # nt -> (size, tree)

    def size_of(s, table):
        if is_term(s):
            return (0 if s[1] == 'NL' else 1), s
        return table.get(s, (INF, None))

    changed = True
    while changed:
        changed = False
        for nt, prods in G.items():
            for pi, (label, syms) in enumerate(prods):
                tot = 0
                kids = []
                for s in syms:
                    sz, tr = size_of(s, best)
                    tot += sz
                    kids.append(tr)
                if tot < INF and tot < best.get(nt, (INF, None))[0]:
                    best[nt] = (tot, (nt, pi, kids))
                    changed = True
    ending_i = {nt: {} for nt in G}
    starting_i = {nt: {} for nt in G}
    for table, rev in ((ending_i, True), (starting_i, False)):
        changed = True
        while changed:
            changed = False
            for nt, prods in G.items():
                for pi, (label, syms) in enumerate(prods):
                    order = list(range(len(syms)))
                    if rev:
                        order.reverse()
                    # position k carries the distinguished terminal; positions beyond it (towards the edge) must
                    # derive the empty string
                    for idx, k in enumerate(order):
                        edge = order[:idx]
                        if any(is_term(syms[e]) or syms[e] not in nullable for e in edge):
                            break
                        s = syms[k]
                        if is_term(s):
                            cands = {s[1]: ((0 if s[1] == 'NL' else 1), s)}
                        else:
                            cands = table[s]
                        if not cands:
                            continue
                        base = 0
                        kids = [None] * len(syms)
                        ok = True
                        for m in range(len(syms)):
                            if m == k:
                                continue
                            if m in edge:
                                sz, tr = empty_tree(syms[m], best)
                            else:
                                sz, tr = size_of(syms[m], best)
                            if sz >= INF:
                                ok = False
                                break
                            base += sz
                            kids[m] = tr
                        if not ok:
                            continue
                        mine = table[nt]
                        for t, (sz, tr) in list(cands.items()):
                            tot = base + sz
                            if tot < mine.get(t, (INF, None))[0]:
                                kk = list(kids)
                                kk[k] = tr
                                mine[t] = (tot, (nt, pi, kk))
                                changed = True
    ending = {(nt, t): v for nt, d in ending_i.items() for t, v in d.items()}
    starting = {(nt, t): v for nt, d in starting_i.items() for t, v in d.items()}
    return best, ending, starting


def empty_tree(s, best):
    """Derivation of the empty string for a nullable symbol."""
    if is_term(s):
        return INF, None
    sz, tr = best.get(s, (INF, None))
    if sz == 0:
        return 0, tr
    # find an all-empty production
    for pi, (label, syms) in enumerate(G[s]):
        kids = []
        ok = True
        for x in syms:
            z, t = empty_tree(x, best)
            if z != 0:
                ok = False
                break
            kids.append(t)
        if ok:
            return 0, (s, pi, kids)
    return INF, None


@functools.lru_cache(None)
def contexts():
    """ctx[nt] = (size, path) where path is a list of (parent_nt, prod_index, child_position) from 'program' down."""
    best, ending, starting = shortest()
    ctx = {'program': (0, [])}
    changed = True
    while changed:
        changed = False
        for nt, prods in G.items():
            if nt not in ctx:
                continue
            csz, cpath = ctx[nt]
            for pi, (label, syms) in enumerate(prods):
                sizes = [((0 if s[1] == 'NL' else 1) if is_term(s) else best[s][0]) for s in syms]
                for k, s in enumerate(syms):
                    if is_term(s):
                        continue
                    tot = csz + sum(sizes) - sizes[k]
                    if tot < ctx.get(s, (INF, None))[0]:
                        ctx[s] = (tot, cpath + [(nt, pi, k)])
                        changed = True
    return ctx


def min_tree(s):
    best, _, _ = shortest()
    return s if is_term(s) else best[s][1]


def embed(nt, tree):
    """Places `tree` (a derivation of nt) into the smallest program context."""
    path = contexts()[nt][1]
    cur = tree
    for (pnt, pi, k) in reversed(path):
        syms = G[pnt][pi][1]
        kids = [min_tree(s) for s in syms]
        kids[k] = cur
        cur = (pnt, pi, kids)
    return cur


def pair_witnesses(a, b, limit=3):
    """Programs (derivation trees) in which terminal class a is immediately followed by b."""
    nullable, first, last, adj = analysis()
    best, ending, starting = shortest()
    out = []
    for (nt, pi, i, j) in adj.get((a, b), [])[:12]:
        syms = G[nt][pi][1]
        kids = []
        ok = True
        for m, s in enumerate(syms):
            if m == i:
                tr = s if is_term(s) else ending.get((s, a), (INF, None))[1]
            elif m == j:
                tr = s if is_term(s) else starting.get((s, b), (INF, None))[1]
            elif i < m < j:
                tr = empty_tree(s, best)[1]
            else:
                tr = min_tree(s)
            if tr is None:
                ok = False
                break
            kids.append(tr)
        if ok:
            for cand in embed_variants(nt, (nt, pi, kids)):
                prog = render(cand)
                if prog is not None:
                    out.append(prog)
                    break
        if len(out) >= limit:
            break
    return out


# ---------------------------------------------------------------- deviation-bounded enumeration
def gen(sym, budget):
    """All derivation trees of `sym` with at most `budget` deviations from the default productions.
    Yields (tree, deviations_used)."""
    if is_term(sym):
        yield sym, 0
        return
    for pi, (label, syms) in enumerate(G[sym]):
        cost = 0 if (pi == 0 or sym in FREE) else 1
        if cost > budget:
            continue
        for kids, used in gen_seq(syms, budget - cost):
            yield (sym, pi, kids), used + cost


def gen_seq(syms, budget):
    if not syms:
        yield [], 0
        return
    for tr, u in gen(syms[0], budget):
        for rest, u2 in gen_seq(syms[1:], budget - u):
            yield [tr] + rest, u + u2


def stat_programs(budget, kinds=None):
    """One-statement programs: the statement kind is free, `budget` deviations inside it."""
    for pi, (label, syms) in enumerate(G['stat']):
        if kinds and label not in kinds:
            continue
        for kids, used in gen_seq(syms, budget):
            stat = ('stat', pi, kids)
            yield wrap_stats([stat])
    for pi, (label, syms) in enumerate(G['laststat']):
        for kids, used in gen_seq(syms, budget):
            yield wrap_last(('laststat', pi, kids))


def wrap_stats(stats, semis=None, last=None):
    """program tree from a list of stat trees (semis[i] True -> ';' after stat i)."""
    semis = semis or [False] * len(stats)
    if last is not None:
        blk = ('block', 3, [last])
    else:
        blk = ('block', 0, [])
    for st, sm in reversed(list(zip(stats, semis))):
        if sm:
            blk = ('block', 2, [st, T(';'), blk])
        else:
            blk = ('block', 1, [st, blk])
    return ('program', 0, [blk])


def wrap_last(last):
    return ('program', 0, [('block', 3, [last])])


def default_stat(label):
    for pi, (l, syms) in enumerate(G['stat']):
        if l == label:
            return ('stat', pi, [min_tree(s) for s in syms])
    raise KeyError(label)


STAT_LABELS = [l for l, _ in G['stat']]


# ---------------------------------------------------------------- rendering a tree: tokens + ground truth
class Tok(object):
    __slots__ = ('cls', 'text', 'depth', 'line_scope', 'ref')

    def __init__(self, cls, text):
        self.cls = cls
        self.text = text
        self.depth = 0          # blocks + brackets open at this token (closing token already closed)
        self.line_scope = None  # id of the line-scoped construct this token belongs to
        self.ref = None         # expected reference-lexer tokens [(kind, text)]


class Program(object):
    """A rendered derivation: tokens, gap constraints, skeleton, line scopes."""

    def __init__(self, tree):
        self.tree = tree
        self.toks = []
        self.must_nl = set()     # gap index g (between tok g-1 and tok g; g == len(toks) is the tail) needing a newline
        self.no_nl = set()       # gap indices where a newline is forbidden
        self.scopes = []         # (first_tok, last_tok) of each line-scoped construct
        self.line_starts = set() # token indices that begin a line in the one-statement-per-line layout
        self.valid = True
        self.why = None
        self._names = 0
        r = _Renderer(self)
        self.skeleton = r.run(tree)
        # goto/label visibility: gotos only in the main function, served by one label in the outermost block
        self.needs_label = False
        if r.gotos:
            if any(f != 1 for f in r.gotos):
                self.valid = False
                self.why = 'goto inside a nested function'
            elif any(f == 1 and b == 0 for f, b in r.labels):
                if len([1 for f, b in r.labels if f == 1]) > 1:
                    self.valid = False
                    self.why = 'duplicate visible label'
            elif any(f == 1 for f, b in r.labels):
                self.valid = False
                self.why = 'label in a nested block is not visible to the goto'
            else:
                self.needs_label = True
        elif len([1 for f, b in r.labels if f == 1]) > 1 or len(r.labels) != len(set(r.labels)):
            self.valid = False
            self.why = 'duplicate label'

    def spellings(self):
        return [t.text for t in self.toks]


OPEN_BR = {'(', '{', '['}
CLOSE_BR = {')', '}', ']'}


class _Renderer(object):
    def __init__(self, prog):
        self.p = prog
        self.depth = 0
        self.scope = None
        self.fn_stack = [{'vararg': True, 'loops': 0}]    # main chunk is vararg
        self.labels = []       # (function nesting, block nesting) of every label statement
        self.gotos = []        # function nesting of every goto
        self.block_depth = 0

    # -- token emission
    def emit(self, cls):
        p = self.p
        if cls == 'NL':
            p.must_nl.add(len(p.toks))
            return None
        if cls in NAME_CLASSES:
            text = NAME_CLASSES[cls]
            if text is None:
                text = NAME_POOL[p._names % len(NAME_POOL)]
                p._names += 1
        elif cls == 'GNAME':
            text = b'g'
            self.gotos.append(len(self.fn_stack))
        elif cls in NUMBER_CLASSES:
            text = NUMBER_CLASSES[cls]
        elif cls in STRING_CLASSES:
            text = STRING_CLASSES[cls]
        elif cls in ('LABEL', 'LABEL_sp'):
            text = b'::g::' if cls == 'LABEL' else b':: g\t::'
            self.labels.append((len(self.fn_stack), self.block_depth))
        else:
            text = cls.encode('latin-1')
        t = Tok(cls, text)
        if cls in CLOSE_BR:
            self.depth -= 1
        t.depth = self.depth
        if cls in OPEN_BR:
            self.depth += 1
        t.line_scope = self.scope
        if self.scope is not None and (b'\n' in text or b'\r' in text):
            p.valid = False
            p.why = 'multi-line token inside a line-scoped construct'
        if self.scope is not None and p.toks and p.toks[-1].line_scope == self.scope:
            p.no_nl.add(len(p.toks))
        p.toks.append(t)
        return t

    def kw_close(self, cls):
        """A block-closing keyword: already closed for its own indentation."""
        self.depth -= 1
        if self.scope is None:
            self.p.line_starts.add(len(self.p.toks))
        t = self.emit(cls)
        return t

    def run(self, tree):
        sk = self.node(tree)
        return sk

    # -- generic dispatch
    def node(self, tree):
        if tree[0] == 'T':
            return self.emit(tree[1])
        nt, pi, kids = tree
        label = G[nt][pi][0]
        fn = getattr(self, 'r_' + nt, None)
        if fn is None:
            fn = getattr(self, 'r_' + nt.replace('_n', ''), None)
        return fn(label, kids, tree)

    def r_program(self, label, kids, tree):
        sk = self.node(kids[0])
        return sk

    def block_body(self, tree):
        """Renders a block with depth+1; returns ('chunk', [stats])."""
        self.depth += 1
        self.block_depth += 1
        sk = self.node(tree)
        self.block_depth -= 1
        # depth is decremented by the closing keyword (kw_close)
        return sk

    def r_block(self, label, kids, tree):
        stats = []
        cur = tree
        # iterative to keep the statements flat
        while True:
            nt, pi, ks = cur
            lab = G[nt][pi][0]
            if lab == 'b_empty':
                break
            if lab in ('b_stat', 'b_stat_semi'):
                first_tok = len(self.p.toks)
                if self.scope is None:
                    self.p.line_starts.add(first_tok)
                st = self.node(ks[0])
                self.check_stat_start(first_tok, stats)
                stats.append(st)
                if lab == 'b_stat_semi':
                    self.emit(';')
                    self.last_semi = True
                else:
                    self.last_semi = False
                cur = ks[-1]
                continue
            if lab == 'b_semi':
                self.emit(';')
                cur = ks[-1]
                continue
            if lab in ('b_last', 'b_last_semi'):
                first_tok = len(self.p.toks)
                if self.scope is None:
                    self.p.line_starts.add(first_tok)
                st = self.node(ks[0])
                stats.append(st)
                if lab == 'b_last_semi':
                    self.emit(';')
                break
        return ('chunk', stats)

    def check_stat_start(self, first_tok, stats_before):
        p = self.p
        if first_tok < len(p.toks) and p.toks[first_tok].cls == '(' and first_tok > 0:
            prev = p.toks[first_tok - 1]
            if prev.cls != ';' and stats_before:
                p.valid = False
                p.why = "statement starts with '(' after a statement without ';'"

    # -- statements
    def r_laststat(self, label, kids, tree):
        if label == 'break':
            self.emit('break')
            if self.fn_stack[-1]['loops'] == 0:
                self.p.valid = False
                self.p.why = 'break outside a loop'
            return ('break',)
        self.emit('return')
        rv = self.node(kids[1])
        return ('return', rv)

    def r_retvals(self, label, kids, tree):
        if label == 'rv_none':
            return None
        return self.node(kids[0])

    def r_stat(self, label, kids, tree):
        return getattr(self, 's_' + label)(kids)

    r_slstat = r_stat

    def s_return(self, kids):
        return self.r_laststat('return', kids, None)

    def s_break(self, kids):
        return self.r_laststat('break', kids, None)

    def s_assign(self, kids):
        targets = self.node(kids[0])
        op = self.node(kids[1])
        exps = self.node(kids[2])
        return ('assign', targets, op, exps)

    def s_callstat(self, kids):
        return ('callstat', self.node(kids[0]))

    def s_do(self, kids):
        self.emit('do')
        blk = self.block_body(kids[1])
        self.kw_close('end')
        return ('do', blk)

    def loop_block(self, tree):
        self.fn_stack[-1]['loops'] += 1
        blk = self.block_body(tree)
        self.fn_stack[-1]['loops'] -= 1
        return blk

    def cond_no_newline(self, start_tok):
        """A condition that begins with '(' keeps its then/do on the same line (contested short-form corner)."""
        p = self.p
        if p.toks[start_tok].cls == '(':
            for g in range(start_tok, len(p.toks) + 1):
                p.no_nl.add(g)

    def s_while(self, kids):
        self.emit('while')
        st = len(self.p.toks)
        e = self.node(kids[1])
        self.cond_no_newline(st)
        self.emit('do')
        blk = self.loop_block(kids[3])
        self.kw_close('end')
        return ('while', e, blk)

    def s_repeat(self, kids):
        self.emit('repeat')
        blk = self.loop_block(kids[1])
        self.kw_close('until')
        e = self.node(kids[3])
        return ('repeat', blk, e)

    def s_if(self, kids):
        pairs = []
        self.emit('if')
        st = len(self.p.toks)
        e = self.node(kids[1])
        self.cond_no_newline(st)
        self.emit('then')
        blk = self.block_body(kids[3])
        pairs.append((e, blk))
        cur = kids[4]
        while G[cur[0]][cur[1]][0] == 'elifs_more':
            ks = cur[2]
            self.kw_close('elseif')
            st = len(self.p.toks)
            e = self.node(ks[1])
            self.cond_no_newline(st)
            self.emit('then')
            blk = self.block_body(ks[3])
            pairs.append((e, blk))
            cur = ks[4]
        els = None
        eo = kids[5]
        if G[eo[0]][eo[1]][0] == 'else_some':
            self.kw_close('else')
            els = self.block_body(eo[2][1])
        self.kw_close('end')
        return ('if', pairs, els, False)

    def open_scope(self):
        p = self.p
        if self.scope is not None:
            p.valid = False
            p.why = 'nested line-scoped construct'
        self.scope = len(p.scopes)
        p.scopes.append([len(p.toks), None])
        return self.scope

    def close_scope(self, sid):
        p = self.p
        p.scopes[sid][1] = len(p.toks) - 1
        self.scope = None

    def s_shortif(self, kids):
        sid = self.open_scope()
        self.emit('if')
        self.emit('(')
        e = self.node(kids[2])
        self.emit(')')
        self.depth += 1
        body = self.sl_list(kids[4])
        els = None
        se = kids[5]
        if G[se[0]][se[1]][0] == 'slelse_some':
            self.emit('else')
            els = ('chunk', self.sl_list(se[2][1]))
        self.depth -= 1
        self.close_scope(sid)
        self.emit('NL')
        return ('if', [(e, ('chunk', body))], els, True)

    def sl_list(self, tree):
        out = []
        cur = tree
        while True:
            lab = G[cur[0]][cur[1]][0]
            out.append(self.node(cur[2][0]))
            if lab == 'sl_one':
                break
            if out[-1][0] in ('return', 'break', 'qprint'):
                self.p.valid = False
                self.p.why = 'statement after return/break/? in short-if body'
            cur = cur[2][1]
        return out

    def s_qprint(self, kids):
        p = self.p
        if self.scope is not None and len(kids) == 2:
            # inside a short-if line: shares that line's scope
            self.emit('?')
            return ('qprint', self.node(kids[1]))
        if p.toks:
            p.must_nl.add(len(p.toks))     # '?' starts its line
        if self.scope is not None:
            p.valid = False
            p.why = 'qprint inside a line-scoped construct'
        sid = self.open_scope()
        self.emit('?')
        exps = self.node(kids[1])
        self.close_scope(sid)
        self.emit('NL')
        return ('qprint', exps)

    def s_fornum(self, kids):
        self.emit('for')
        n = self.node(kids[1])
        self.emit('=')
        e1 = self.node(kids[3])
        self.emit(',')
        e2 = self.node(kids[5])
        e3 = None
        so = kids[6]
        if G[so[0]][so[1]][0] == 'step_some':
            self.emit(',')
            e3 = self.node(so[2][1])
        self.emit('do')
        blk = self.loop_block(kids[8])
        self.kw_close('end')
        return ('fornum', n, e1, e2, e3, blk)

    def s_forin(self, kids):
        self.emit('for')
        names = self.node(kids[1])
        self.emit('in')
        exps = self.node(kids[3])
        self.emit('do')
        blk = self.loop_block(kids[5])
        self.kw_close('end')
        return ('forin', names, exps, blk)

    def s_function(self, kids):
        self.emit('function')
        fn = kids[1][2]
        path = [self.node(fn[0])]
        cur = fn[1]
        while G[cur[0]][cur[1]][0] == 'dn_more':
            self.emit('.')
            path.append(self.node(cur[2][1]))
            cur = cur[2][2]
        meth = None
        if G[fn[2][0]][fn[2][1]][0] == 'm_some':
            self.emit(':')
            meth = self.node(fn[2][2][1])
        body = self.node(kids[2])
        return ('function', path, meth, body)

    def s_localfunction(self, kids):
        self.emit('local')
        self.emit('function')
        n = self.node(kids[2])
        body = self.node(kids[3])
        return ('localfunction', n, body)

    def s_local(self, kids):
        self.emit('local')
        names = self.node(kids[1])
        init = None
        li = kids[2]
        if G[li[0]][li[1]][0] == 'li_some':
            self.emit('=')
            init = self.node(li[2][1])
        return ('local', names, init)

    def s_goto(self, kids):
        self.emit('goto')
        t = self.emit('GNAME')
        return ('goto', t.text)

    def s_label(self, kids):
        t = self.emit(kids[0][1])
        return ('label', t.text[2:-2].strip())

    # -- pieces
    def r_assignop(self, label, kids, tree):
        return self.node(kids[0]).text

    r_binop = r_assignop
    r_unop = r_assignop
    r_fieldsep = r_assignop

    def r_varlist(self, label, kids, tree):
        out = [self.node(kids[0])]
        if label == 'vl_more':
            self.emit(',')
            out += self.node(kids[2])
        return out

    def r_var(self, label, kids, tree):
        if label == 'v_name':
            return ('name', self.node(kids[0]))
        pre = self.node(kids[0])
        if label == 'v_index':
            self.emit('[')
            e = self.node(kids[2])
            self.emit(']')
            return ('index', pre, e)
        self.emit('.')
        return ('field', pre, self.node(kids[2]))

    def r_prefixexp(self, label, kids, tree):
        if label == 'p_paren':
            self.emit('(')
            e = self.node(kids[1])
            self.emit(')')
            return ('paren', e)
        return self.node(kids[0])

    def r_call(self, label, kids, tree):
        pre = self.node(kids[0])
        if label == 'c_call':
            return ('call', pre, self.node(kids[1]))
        self.emit(':')
        n = self.node(kids[2])
        return ('method', pre, n, self.node(kids[3]))

    def r_args(self, label, kids, tree):
        if label == 'a_empty':
            self.emit('(')
            self.emit(')')
            return ('args', [])
        if label == 'a_list':
            self.emit('(')
            es = self.node(kids[1])
            self.emit(')')
            return ('args', es)
        if label == 'a_table':
            return ('tableargs', self.node(kids[0]))
        return ('stringarg', self.node(kids[0])[1])

    def r_explist(self, label, kids, tree):
        out = [self.node(kids[0])]
        if label == 'el_more':
            self.emit(',')
            out += self.node(kids[2])
        return out

    def r_namelist(self, label, kids, tree):
        out = [self.node(kids[0])]
        if label == 'nl_more':
            self.emit(',')
            out += self.node(kids[2])
        return out

    def r_Name(self, label, kids, tree):
        return self.emit(kids[0][1]).text

    def r_Number(self, label, kids, tree):
        return ('number', self.emit(kids[0][1]).text)

    def r_String(self, label, kids, tree):
        t = self.emit(kids[0][1])
        return ('string', reflex.lex(t.text)[0].value)

    def r_exp(self, label, kids, tree):
        """Flat: ('exp', [operands and operator spellings in source order])."""
        items = []
        self.exp_items(label, kids, items)
        return ('exp', items)

    def exp_items(self, label, kids, items):
        if label == 'e_binop':
            l = kids[0]
            self.exp_items(G[l[0]][l[1]][0], l[2], items)
            items.append(('op', self.node(kids[1])))
            r = kids[2]
            self.exp_items(G[r[0]][r[1]][0], r[2], items)
        elif label == 'e_unop':
            items.append(('op', self.node(kids[0])))
            r = kids[1]
            self.exp_items(G[r[0]][r[1]][0], r[2], items)
        elif label == 'e_prefix':
            items.append(self.node(kids[0]))
        elif label in ('e_nil', 'e_false', 'e_true'):
            self.emit(kids[0][1])
            items.append((kids[0][1],))
        elif label == 'e_number':
            items.append(self.node(kids[0]))
        elif label == 'e_string':
            items.append(self.node(kids[0]))
        elif label == 'e_dots':
            self.emit('...')
            if not self.fn_stack[-1]['vararg']:
                self.p.valid = False
                self.p.why = '... outside a vararg function'
            items.append(('dots',))
        elif label == 'e_function':
            self.emit('function')
            items.append(('function', self.node(kids[1])))
        elif label == 'e_table':
            items.append(self.node(kids[0]))

    def r_funcbody(self, label, kids, tree):
        self.emit('(')
        pl = kids[1]
        plab = G[pl[0]][pl[1]][0]
        names = []
        dots = False
        if plab in ('pl_names', 'pl_names_dots'):
            names = self.node(pl[2][0])
        if plab == 'pl_names_dots':
            self.emit(',')
        if plab in ('pl_names_dots', 'pl_dots'):
            self.emit('...')
            dots = True
        self.emit(')')
        self.fn_stack.append({'vararg': dots, 'loops': 0})
        blk = self.block_body(kids[3])
        self.fn_stack.pop()
        self.kw_close('end')
        return ('funcbody', names, dots, blk)

    def r_table(self, label, kids, tree):
        self.emit('{')
        fields = []
        if label == 't_fields':
            cur = kids[1]
            while True:
                lab = G[cur[0]][cur[1]][0]
                fields.append(self.node(cur[2][0]))
                if lab == 'fl_one':
                    break
                self.node(cur[2][1])
                if lab == 'fl_trail':
                    break
                cur = cur[2][2]
        self.emit('}')
        return ('table', fields)

    def r_field(self, label, kids, tree):
        if label == 'f_exp':
            return ('fexp', self.node(kids[0]))
        if label == 'f_key':
            self.emit('[')
            k = self.node(kids[1])
            self.emit(']')
            self.emit('=')
            return ('fkey', k, self.node(kids[4]))
        n = self.node(kids[0])
        self.emit('=')
        return ('fname', n, self.node(kids[2]))


def render(tree):
    """Program for a derivation tree, with the goto-label repair applied; None when compile-invalid."""
    p = Program(tree)
    if p.valid and p.needs_label:
        # prepend `::g::` to the outermost block
        blk = tree[2][0]
        tree = ('program', 0, [('block', 1, [default_stat('label'), blk])])
        p = Program(tree)
    if not p.valid:
        return None
    return p


def embed_variants(nt, tree):
    """The witness placed in the smallest context, and that context wrapped in a loop / a vararg function, so that
    a compile-valid variant exists for witnesses containing break or '...'."""
    base = embed(nt, tree)
    yield base
    blk = base[2][0]
    w = [pi for pi, (l, _) in enumerate(G['stat']) if l == 'while'][0]
    syms = G['stat'][w][1]
    kids = [min_tree(x) for x in syms]
    kids[3] = blk
    yield wrap_stats([('stat', w, kids)])
    f = [pi for pi, (l, _) in enumerate(G['stat']) if l == 'function'][0]
    fsyms = G['stat'][f][1]
    fk = [min_tree(x) for x in fsyms]
    pl_dots = [pi for pi, (l, _) in enumerate(G['parlist']) if l == 'pl_dots'][0]
    fk[2] = ('funcbody', 0, [T('('), ('parlist', pl_dots, [T('...')]), T(')'), blk, T('end')])
    yield wrap_stats([('stat', f, fk)])


# ---------------------------------------------------------------- text assembly and layouts
SEPARATORS = [b'', b' ', b'\t', b'   ', b'\n', b'\r\n', b'\r', b'\n\n \n', b' -- c\n', b'//c\n', b' --[[c]] ', b'--[[c\nd]]',
              b' \n  ', b'\t-- c\n\t', b' // c\r', b' --[=[c]=] ']


def has_nl(sep):
    return b'\n' in sep or b'\r' in sep


def real_nl(sep):
    """The separator contains a newline token (not merely a newline inside a long comment)."""
    return any(t.kind == 'newline' for t in reflex.lex(sep))


_fuse_cache = {}


def gap_ok(prev, sep, nxt):
    """E1 decides: prev + sep + nxt lexes to exactly prev, (blanks/comments), nxt."""
    key = (prev, sep, nxt)
    r = _fuse_cache.get(key)
    if r is None:
        try:
            toks = reflex.lex(prev + sep + nxt)
            sig = [t.text for t in reflex.significant(toks)]
            want = [t.text for t in reflex.significant(reflex.lex(prev))] + \
                   [t.text for t in reflex.significant(reflex.lex(nxt))]
            r = (sig == want)
        except reflex.Reject:
            r = False
        _fuse_cache[key] = r
    return r


def legal_seps(prog, g):
    """Legal separators for gap g (between token g-1 and token g; g == 0 head, g == len tail)."""
    n = len(prog.toks)
    out = []
    for sep in SEPARATORS:
        if g in prog.no_nl and has_nl(sep):
            continue
        if g in prog.must_nl and not real_nl(sep) and g < n:
            continue
        if g == 0:
            if gap_ok(b'', sep, prog.toks[0].text) if n else True:
                out.append(sep)
            continue
        if g == n:
            # tail: a line comment without newline is fine at end of input
            if gap_ok(prog.toks[-1].text, sep, b''):
                out.append(sep)
            continue
        if gap_ok(prog.toks[g - 1].text, sep, prog.toks[g].text):
            out.append(sep)
    return out


def default_sep(prog, g):
    n = len(prog.toks)
    if g == 0:
        return b''
    if g == n:
        return b'\n'
    if g in prog.must_nl:
        return b'\n'
    return b' '


def assemble(prog, seps):
    """seps: dict gap -> separator (others default). Returns source bytes."""
    n = len(prog.toks)
    out = []
    for g in range(n + 1):
        out.append(seps.get(g, default_sep(prog, g)))
        if g < n:
            out.append(prog.toks[g].text)
    return b''.join(out)


def expected_ref_tokens(prog):
    """The significant reference tokens the program must lex to (labels expand to 3 tokens)."""
    out = []
    for t in prog.toks:
        if t.cls.startswith('LABEL'):
            out += [b'::', t.text[2:-2].strip(), b'::']
        else:
            out.append(t.text)
    return out


def validate_source(prog, src):
    """Generator self-check: the rendered text must lex (E1) to exactly the intended tokens."""
    try:
        sig = [t.text for t in reflex.significant(reflex.lex(src))]
    except reflex.Reject:
        return False
    return sig == expected_ref_tokens(prog)


def layouts(prog, max_dev=1):
    """All layouts with at most max_dev gaps deviating from the default separator. Yields (src, seps)."""
    n = len(prog.toks)
    yield assemble(prog, {}), {}
    gaps = range(n + 1)
    alts = {}
    for g in gaps:
        d = default_sep(prog, g)
        alts[g] = [s for s in legal_seps(prog, g) if s != d]
    if max_dev >= 1:
        for g in gaps:
            for s in alts[g]:
                yield assemble(prog, {g: s}), {g: s}
    if max_dev >= 2:
        for g1, g2 in itertools.combinations(gaps, 2):
            for s1 in alts[g1]:
                for s2 in alts[g2]:
                    yield assemble(prog, {g1: s1, g2: s2}), {g1: s1, g2: s2}


def tight_layout(prog):
    """Every gap as small as E1 allows ('' where the neighbours do not fuse)."""
    seps = {}
    for g in range(len(prog.toks) + 1):
        ls = legal_seps(prog, g)
        seps[g] = ls[0] if ls else default_sep(prog, g)
    return assemble(prog, seps), seps


def canonical_lines(prog, break_brackets=False):
    """One statement per line, no indentation: list of lists of token indices."""
    lines = []
    cur = []
    n = len(prog.toks)
    for i in range(n):
        newline = i in prog.line_starts or i in prog.must_nl
        if break_brackets and i > 0 and i not in prog.no_nl:
            prev = prog.toks[i - 1].cls
            if prev in ('{', '(', ',') or prog.toks[i].cls in ('}', ')'):
                # never separate a call's '(' or a string/table argument from the callee's line here; only break
                # inside brackets
                newline = newline or prev in ('{', '(', ',') or prog.toks[i].cls in ('}', ')')
        if newline and cur and i not in prog.no_nl:
            lines.append(cur)
            cur = []
        cur.append(i)
    if cur:
        lines.append(cur)
    return lines


def line_text(prog, idxs):
    out = []
    for k, i in enumerate(idxs):
        if k:
            prev = prog.toks[idxs[k - 1]].text
            out.append(b'' if False else b' ')
        out.append(prog.toks[i].text)
    return b''.join(out)
