"""Adapter: picotool's Node tree -> the neutral skeleton used by lib/luagen (flat expressions)."""


def P():
    from pico8.lua import parser
    from pico8.lua import lexer
    return parser, lexer


class AdaptError(Exception):
    pass


def chunk(node):
    parser, lexer = P()
    if not isinstance(node, parser.Chunk):
        raise AdaptError('expected Chunk, got %r' % type(node).__name__)
    return ('chunk', [stat(s) for s in node.stats])


def name_of(tok):
    parser, lexer = P()
    if isinstance(tok, lexer.Token):
        return tok._data
    if isinstance(tok, (bytes, bytearray)):
        return bytes(tok)
    raise AdaptError('expected a name token, got %r' % (tok,))


def stat(s):
    parser, lexer = P()
    k = type(s).__name__
    if k == 'StatAssignment':
        return ('assign', [prefix(v) for v in s.varlist.vars], s.assignop._data, explist(s.explist))
    if k == 'StatFunctionCall':
        return ('callstat', prefix(s.functioncall))
    if k == 'StatDo':
        return ('do', chunk(s.block))
    if k == 'StatWhile':
        return ('while', exp(s.exp), chunk(s.block))
    if k == 'StatRepeat':
        return ('repeat', chunk(s.block), exp(s.exp))
    if k == 'StatIf':
        pairs = []
        els = None
        for (e, b) in s.exp_block_pairs:
            if e is None:
                els = chunk(b)
            else:
                pairs.append((exp(e), chunk(b)))
        return ('if', pairs, els, bool(getattr(s, 'short_if', False)))
    if k == 'StatForStep':
        return ('fornum', name_of(s.name), exp(s.exp_init), exp(s.exp_end),
                exp(s.exp_step) if s.exp_step is not None else None, chunk(s.block))
    if k == 'StatForIn':
        return ('forin', [name_of(n) for n in s.namelist.names], explist(s.explist), chunk(s.block))
    if k == 'StatFunction':
        fn = s.funcname
        return ('function', [name_of(n) for n in fn.namepath],
                name_of(fn.methodname) if fn.methodname is not None else None, funcbody(s.funcbody))
    if k == 'StatLocalFunction':
        return ('localfunction', name_of(s.funcname), funcbody(s.funcbody))
    if k == 'StatLocalAssignment':
        return ('local', [name_of(n) for n in s.namelist.names],
                explist(s.explist) if s.explist is not None else None)
    if k == 'StatGoto':
        return ('goto', name_of(s.label))
    if k == 'StatLabel':
        return ('label', name_of(s.label))
    if k == 'StatBreak':
        return ('break',)
    if k == 'StatPrintShort':
        return ('qprint', explist(s.explist) if s.explist is not None else None)
    if k == 'StatReturn':
        return ('return', explist(s.explist) if s.explist is not None else None)
    raise AdaptError('unknown statement node %s' % k)


def explist(el):
    return [exp(e) for e in el.exps]


def funcbody(fb):
    names = [name_of(n) for n in fb.parlist.names] if fb.parlist is not None else []
    return ('funcbody', names, fb.dots is not None, chunk(fb.block))


def exp(e):
    items = []
    exp_items(e, items)
    return ('exp', items)


def exp_items(e, items):
    parser, lexer = P()
    k = type(e).__name__
    if k == 'ExpBinOp':
        exp_items(e.exp1, items)
        items.append(('op', e.binop._data))
        exp_items(e.exp2, items)
    elif k == 'ExpUnOp':
        items.append(('op', e.unop._data))
        exp_items(e.exp, items)
    elif k == 'VarargDots':
        items.append(('dots',))
    elif k == 'ExpValue':
        v = e.value
        if v is None:
            items.append(('nil',))
        elif v is True:
            items.append(('true',))
        elif v is False:
            items.append(('false',))
        elif isinstance(v, lexer.TokNumber):
            items.append(('number', v._data))
        elif isinstance(v, lexer.TokString):
            items.append(('string', string_value(v)))
        elif isinstance(v, lexer.TokName):
            items.append(('name', v._data))
        else:
            vk = type(v).__name__
            if vk == 'Function':
                items.append(('function', funcbody(v.funcbody)))
            elif vk == 'TableConstructor':
                items.append(table(v))
            elif vk in ('ExpValue', 'ExpBinOp', 'ExpUnOp', 'VarargDots'):
                items.append(('paren', exp(v)))
            else:
                items.append(prefix(v))
    else:
        raise AdaptError('unknown expression node %s' % k)


def string_value(tok):
    d = tok._data
    if tok._multiline_quote is not None:
        # Lua skips a newline directly after the opening bracket
        if d[:2] == b'\r\n':
            return d[2:]
        if d[:1] in (b'\n', b'\r'):
            return d[1:]
    return d


def prefix(v):
    parser, lexer = P()
    k = type(v).__name__
    if k == 'VarName':
        return ('name', name_of(v.name))
    if k == 'VarIndex':
        return ('index', prefix(v.exp_prefix), exp(v.exp_index))
    if k == 'VarAttribute':
        return ('field', prefix(v.exp_prefix), name_of(v.attr_name))
    if k == 'FunctionCall':
        return ('call', prefix(v.exp_prefix), args(v.args))
    if k == 'FunctionCallMethod':
        return ('method', prefix(v.exp_prefix), name_of(v.methodname), args(v.args))
    if k in ('ExpValue', 'ExpBinOp', 'ExpUnOp', 'VarargDots'):
        return ('paren', exp(v))
    raise AdaptError('unknown prefix node %s' % k)


def args(a):
    parser, lexer = P()
    if a is None:
        return ('args', [])
    if isinstance(a, lexer.TokString):
        return ('stringarg', string_value(a))
    k = type(a).__name__
    if k == 'FunctionArgs':
        return ('args', explist(a.explist) if a.explist is not None else [])
    if k == 'TableConstructor':
        return ('tableargs', table(a))
    raise AdaptError('unknown args node %s' % k)


def table(t):
    fields = []
    for f in t.fields:
        k = type(f).__name__
        if k == 'FieldExpKey':
            fields.append(('fkey', exp(f.key_exp), exp(f.exp)))
        elif k == 'FieldNamedKey':
            fields.append(('fname', name_of(f.key_name), exp(f.exp)))
        elif k == 'FieldExp':
            fields.append(('fexp', exp(f.exp)))
        else:
            raise AdaptError('unknown field node %s' % k)
    return ('table', fields)


def first_difference(a, b, path='root'):
    """Path to the first place where two skeletons differ (None if equal)."""
    if type(a) != type(b):
        return path, a, b
    if isinstance(a, (tuple, list)):
        if len(a) != len(b):
            # name the node kind when available
            return path + ('(%s)' % a[0] if a and isinstance(a[0], str) else ''), a, b
        for i, (x, y) in enumerate(zip(a, b)):
            tag = a[0] if (i and isinstance(a, tuple) and isinstance(a[0], str)) else ''
            d = first_difference(x, y, path + '/' + (tag + '.' if tag else '') + str(i))
            if d:
                return d
        return None
    if a != b:
        return path, a, b
    return None
