"""Core plumbing shared by every property check.

* binds the process to the picotool tree under test ($VERIF_REPO, default /repo)
* sharded, ordered (never sampled) enumeration over a process pool
* violation signatures, known-findings matching, replay files, re-execution of a
  violation in a fresh process before it is reported
* evidence/<ID>.json writer

A property module (props/cXX.py) defines:

    LEVEL        'exploration' | 'model_checking' | 'fault_enumeration'
    RULE         text: how cases are enumerated, what counts as non-trivial
    ASSUMPTIONS  list of str
    def shards(tier, seed) -> list of picklable work items
    def run_shard(item) -> ShardResult
    def replay(case) -> list of (signature, description)   # re-executes one case

Everything a shard does is deterministic in (tier, seed, item).
"""

import fnmatch
import hashlib
import json
import multiprocessing
import os
import subprocess
import sys
import time
import traceback

VERIF_DIR = os.path.dirname(os.path.dirname(os.path.abspath(__file__)))
REPO = os.path.abspath(os.environ.get('VERIF_REPO', '/repo'))
NPROC = int(os.environ.get('VERIF_NPROC', '16'))
MAX_CONFIRMED = int(os.environ.get('VERIF_MAX_CONFIRMED', '4'))


def bind_repo():
    """Make `import pico8` resolve to the tree under test, and prove it."""
    if sys.path[0] != REPO:
        sys.path.insert(0, REPO)
    sys.dont_write_bytecode = True
    import pico8
    f = os.path.abspath(pico8.__file__ or pico8.__path__[0])
    if not f.startswith(REPO + os.sep):
        raise SystemExit('harness error: pico8 imported from %s, not %s' % (f, REPO))
    from pico8 import util
    # keep picotool's own chatter out of the check output
    util.set_verbosity(util.VERBOSITY_QUIET)

    class _Null:
        def write(self, s):
            pass

        def flush(self):
            pass
    util._error_stream = _Null()
    util._write_stream = _Null()


def jsonable(x):
    """Make bytes etc. printable in JSON (latin-1 keeps bytes 1:1)."""
    if isinstance(x, (bytes, bytearray)):
        return {'$b': bytes(x).decode('latin-1')}
    if isinstance(x, dict):
        return {str(k): jsonable(v) for k, v in x.items()}
    if isinstance(x, (list, tuple)):
        return [jsonable(v) for v in x]
    if isinstance(x, (set, frozenset)):
        return sorted(jsonable(v) for v in x)
    return x


def unjson(x):
    if isinstance(x, dict):
        if set(x.keys()) == {'$b'}:
            return x['$b'].encode('latin-1')
        return {k: unjson(v) for k, v in x.items()}
    if isinstance(x, list):
        return [unjson(v) for v in x]
    return x


class ShardResult:
    """Counters one shard returns. Merged by the driver."""

    def __init__(self):
        self.evaluations = 0
        self.states = 0
        self.transitions = 0
        self.nontrivial = set()      # hashes of distinct non-trivial cases
        self.outcomes = set()        # hashes / small labels of distinct observed outcomes
        self.samples = []            # a few written-out cases
        self.violations = {}         # signature -> (description, case)  (shortest case kept)
        self.extra = {}              # additive integer counters
        self.sets = {}               # name -> set (union-merged; reported as counts)
        self.capped = False

    # -- helpers used by shard code --
    def nontriv(self, key):
        self.nontrivial.add(h64(key))

    def outcome(self, key):
        self.outcomes.add(h64(key))

    def count(self, name, n=1):
        self.extra[name] = self.extra.get(name, 0) + n

    def cover(self, name, key):
        self.sets.setdefault(name, set()).add(key)

    def sample(self, case, limit=4):
        if len(self.samples) < limit:
            self.samples.append(jsonable(case))

    def violation(self, signature, description, case):
        old = self.violations.get(signature)
        size = len(json.dumps(jsonable(case)))
        if old is None or size < old[2]:
            self.violations[signature] = (description, jsonable(case), size)

    def merge(self, o):
        self.evaluations += o.evaluations
        self.states += o.states
        self.transitions += o.transitions
        self.nontrivial |= o.nontrivial
        self.outcomes |= o.outcomes
        for s in o.samples:
            if len(self.samples) < 8:
                self.samples.append(s)
        for sig, v in o.violations.items():
            old = self.violations.get(sig)
            if old is None or v[2] < old[2]:
                self.violations[sig] = v
        for k, v in o.extra.items():
            self.extra[k] = self.extra.get(k, 0) + v
        for k, v in o.sets.items():
            self.sets.setdefault(k, set()).update(v)
        self.capped = self.capped or o.capped


def h64(key):
    if not isinstance(key, (bytes, bytearray)):
        key = repr(key).encode('utf-8', 'backslashreplace')
    return hashlib.blake2b(key, digest_size=8).digest()


# ----------------------------------------------------------------------------------------
# known findings

def load_known(pid):
    path = os.path.join(VERIF_DIR, 'known_findings.json')
    known, fixed = {}, {}
    if os.path.exists(path):
        with open(path) as fh:
            data = json.load(fh)
        for e in data.get('findings', []):
            if e.get('property') != pid:
                continue
            if e.get('status') == 'known':
                known[e['signature']] = e
            else:
                fixed[e['signature']] = e
    return known, fixed


# ----------------------------------------------------------------------------------------
# driver

def _worker_init(modname):
    bind_repo()
    import importlib
    global _MOD
    _MOD = importlib.import_module(modname)


def _worker_run(item):
    try:
        r = _MOD.run_shard(item)
        for sig, v in list(r.violations.items()):
            if isinstance(v[1], dict) and '__shard__' not in v[1]:
                v[1]['__shard__'] = jsonable(item)
        return r
    except Exception:
        r = ShardResult()
        r.violations['HARNESS-ERROR'] = (
            'shard %r crashed:\n%s' % (item, traceback.format_exc()), jsonable({'item': repr(item)}), 0)
        return r


def run_property(pid, mod, tier, seed):
    # every scratch file of the run lives in one private directory that is removed at the end (worker processes of
    # a fork pool do not run atexit handlers)
    import shutil
    import tempfile
    scratch = tempfile.mkdtemp(prefix='verif_%s_' % pid)
    old_tmp = os.environ.get('TMPDIR')
    os.environ['TMPDIR'] = scratch
    tempfile.tempdir = None
    try:
        return _run_property(pid, mod, tier, seed)
    finally:
        if old_tmp is None:
            os.environ.pop('TMPDIR', None)
        else:
            os.environ['TMPDIR'] = old_tmp
        tempfile.tempdir = None
        shutil.rmtree(scratch, ignore_errors=True)


def _run_property(pid, mod, tier, seed):
    t0 = time.time()
    items = mod.shards(tier, seed)
    total = ShardResult()
    nproc = min(NPROC, max(1, len(items)))
    if nproc > 1:
        ctx = multiprocessing.get_context('fork')
        # one fresh process per shard: a shard's case sequence is the whole history its process has seen, so a
        # violation that depends on state leaking between calls replays exactly (check.py --replay F --shard)
        with ctx.Pool(nproc, initializer=_worker_init, initargs=(mod.__name__,), maxtasksperchild=1) as pool:
            for r in pool.imap_unordered(_worker_run, items, chunksize=1):
                total.merge(r)
    else:
        _worker_init(mod.__name__)
        for it in items:
            total.merge(_worker_run(it))
    wall = time.time() - t0
    return finish(pid, mod, tier, seed, total, wall, len(items))


def finish(pid, mod, tier, seed, total, wall, nshards):
    if hasattr(mod, 'finalize'):
        mod.finalize(total)
    known, fixed = load_known(pid)
    exit_code = 0
    n_viol = 0
    n_known = 0
    lines = []
    if 'HARNESS-ERROR' in total.violations:
        print('HARNESS ERROR in %s: %s' % (pid, total.violations['HARNESS-ERROR'][0]))
        print('VIOLATION property=%s replay=%s' % (pid, 'none(harness-error)'))
        write_evidence(pid, mod, tier, seed, total, wall, nshards, 1, 0)
        return 2
    seen_known = set()
    for sig in sorted(total.violations):
        desc, case, _ = total.violations[sig]
        kn = match_known(sig, known)
        if kn is not None:
            if kn['signature'] not in seen_known:
                seen_known.add(kn['signature'])
                n_known += 1
                lines.append('KNOWN-FINDING: property=%s %s [%s]' % (pid, kn.get('what', desc), kn['signature']))
            continue
        n_viol += 1
        path = write_replay(pid, sig, desc, case)
        # every violation gets its replay file; the first few are also re-executed from it in a fresh process before
        # they are reported (a change that breaks a property wholesale raises hundreds of signatures)
        ok = confirm_replay(pid, path, sig) if n_viol <= MAX_CONFIRMED else None
        if ok is False:
            print('HARNESS ERROR: violation %s of %s did not reproduce from its replay file %s '
                  '(nondeterminism in the harness)' % (sig, pid, path))
            exit_code = 2
        if n_viol <= 25:
            lines.append('  signature: %s\n  what: %s' % (sig, desc))
            lines.append('VIOLATION property=%s replay=%s' % (pid, path))
        exit_code = exit_code or 1
    for l in lines:
        print(l)
    write_evidence(pid, mod, tier, seed, total, wall, nshards, n_viol, n_known)
    print('%s tier=%s seed=%d: evaluations=%d states=%d transitions=%d distinct_nontrivial=%d '
          'outcomes=%d violations=%d known_findings=%d wall=%.1fs%s' % (
              pid, tier, seed, total.evaluations, total.states, total.transitions,
              len(total.nontrivial), len(total.outcomes), n_viol, n_known, wall,
              ' CAPPED' if total.capped else ''))
    return exit_code


def match_known(sig, known):
    if sig in known:
        return known[sig]
    for pat, e in known.items():
        if '*' in pat and fnmatch.fnmatchcase(sig, pat):
            return e
    return None


def write_replay(pid, sig, desc, case):
    d = os.path.join(VERIF_DIR, 'replays', pid)
    os.makedirs(d, exist_ok=True)
    name = hashlib.blake2b(sig.encode('utf-8', 'backslashreplace'), digest_size=6).hexdigest() + '.json'
    path = os.path.join(d, name)
    with open(path, 'w') as fh:
        json.dump({'property': pid, 'signature': sig, 'description': desc, 'case': case,
                   'replay_cmd': 'cd /verif && /venv/bin/python check.py %s --replay %s' % (pid, path)},
                  fh, indent=1)
    return path


def confirm_replay(pid, path, sig):
    """Re-execute the case in a fresh process; the same signature must come back."""
    if os.environ.get('VERIF_NO_CONFIRM'):
        return None
    for extra in ([], ['--shard']):
        try:
            p = subprocess.run([sys.executable, os.path.join(VERIF_DIR, 'check.py'), pid, '--replay', path] + extra,
                               capture_output=True, text=True, timeout=1800)
        except Exception:
            return False
        if ('REPLAY-SIGNATURE ' + sig) in p.stdout:
            return True
    return False


def do_replay(pid, mod, path, shard_mode=False):
    with open(path) as fh:
        doc = json.load(fh)
    case = unjson(doc['case'])
    shard = case.pop('__shard__', None) if isinstance(case, dict) else None
    if shard_mode and shard is not None:
        # history-dependent violation (state leaking between calls in the implementation): re-execute the whole
        # case sequence of the shard in this fresh process
        r = mod.run_shard(_tuplify(shard))
        res = [(s_, v[0] + '  [reproduces within the case sequence of shard %r]' % (shard,))
               for s_, v in r.violations.items() if s_ == doc['signature']]
    else:
        res = mod.replay(case)
        if doc['signature'] not in [s_ for s_, _ in res] and shard is not None and not shard_mode:
            print('single-case replay did not reproduce %s; try: check.py %s --replay %s --shard' % (
                doc['signature'], pid, path))
    found = False
    for sig, desc in res:
        print('REPLAY-SIGNATURE ' + sig)
        print('  ' + desc)
        if sig == doc['signature']:
            found = True
    if not res:
        print('replay: no violation on this tree')
        return 0
    known, _ = load_known(pid)
    if all(match_known(s, known) for s, _ in res):
        for s, d in res:
            print('KNOWN-FINDING: property=%s %s [%s]' % (pid, d, s))
        return 0
    print('VIOLATION property=%s replay=%s' % (pid, path))
    return 1


def _tuplify(x):
    if isinstance(x, list):
        return tuple(_tuplify(v) for v in x)
    return x


def write_evidence(pid, mod, tier, seed, total, wall, nshards, n_viol, n_known):
    cov = {
        'evaluations': total.evaluations,
        'distinct_nontrivial': len(total.nontrivial),
        'rule': mod.RULE,
        'samples': total.samples[:8],
        'distinct_outcomes': len(total.outcomes),
        'exhaustive': (not total.capped),
        'shards': nshards,
        'known_findings_reported': n_known,
    }
    if total.states or mod.LEVEL == 'model_checking':
        cov['states'] = total.states
        cov['transitions'] = total.transitions
        # exploration runs on the implementation itself: every explored trace is an implementation trace
        cov['traces_validated_against_impl'] = total.evaluations
    for k, v in sorted(total.extra.items()):
        cov[k] = v
    for k, v in sorted(total.sets.items()):
        cov[k] = len(v)
    if hasattr(mod, 'BOUNDS'):
        cov['bounds'] = mod.BOUNDS.get(tier, {})
    ev = {
        'property_id': pid,
        'tier': tier,
        'seed': seed,
        'level': mod.LEVEL,
        'coverage': cov,
        'assumptions': list(getattr(mod, 'ASSUMPTIONS', [])),
        'wall_s': round(wall, 2),
        'violations': n_viol,
        'repo': REPO,
    }
    # evidence/ describes runs against /repo itself; runs against a scratch tree (VERIF_REPO, mutation testing) go aside
    d = os.path.join(VERIF_DIR, 'evidence') if os.path.realpath(REPO) == '/repo' else os.path.join(VERIF_DIR, 'replays', '_scratch_tree_evidence')
    os.makedirs(d, exist_ok=True)
    tmp = os.path.join(d, pid + '.json.tmp')
    with open(tmp, 'w') as fh:
        json.dump(ev, fh, indent=1, sort_keys=True)
        fh.write('\n')
    os.replace(tmp, os.path.join(d, pid + '.json'))


LUA_VERSIONS = (8, 0, 5, 16, 29, 33, 41, 255)


def lua_version(src):
    """The cart version a source is loaded under: a deterministic function of the source, so that every version of
    the list meets every family of sources (the lexer/parser take the version and must not depend on it)."""
    import zlib
    if isinstance(src, (list, tuple)):
        src = b''.join(src)
    return LUA_VERSIONS[zlib.crc32(bytes(src)) % len(LUA_VERSIONS)]


def split_range(n, k):
    """k contiguous (lo, hi) ranges covering range(n)."""
    k = max(1, min(k, n)) if n else 1
    step = (n + k - 1) // k if n else 0
    return [(i, min(n, i + step)) for i in range(0, n, step)] if n else [(0, 0)]
