"""Helpers that run picotool's command-line entry (pico8.tool.main) in-process and capture what it prints."""
import contextlib
import io
import sys


@contextlib.contextmanager
def captured():
    """Captures util.write output and anything written to sys.stdout (the csv writer of `stats` uses it)."""
    from pico8 import util
    buf = io.StringIO()
    old_stream, old_verb, old_stdout = util._write_stream, util._verbosity, sys.stdout
    util._write_stream = buf
    util.set_verbosity(util.VERBOSITY_NORMAL)
    sys.stdout = buf
    try:
        yield buf
    finally:
        sys.stdout = old_stdout
        util._write_stream = old_stream
        util.set_verbosity(old_verb)


def run(args):
    """(return code or exception, captured text)."""
    from pico8 import tool
    with captured() as buf:
        try:
            rcode = tool.main(list(args))
        except BaseException as e:      # SystemExit from argparse included
            rcode = e
    return rcode, buf.getvalue()


def stats_csv(path):
    """Row of `p8tool stats --csv <path>` as a dict, or None when the command failed / printed something else."""
    import csv
    rcode, text = run(['stats', '--csv', path])
    rows = list(csv.reader(io.StringIO(text)))
    if rcode != 0 or len(rows) != 2 or len(rows[0]) != len(rows[1]):
        return None
    return dict(zip(rows[0], rows[1]))
