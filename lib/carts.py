"""Cart families shared by C03/C04/C13/C16: deterministic region images that realise the unit enumeration."""
from lib import refcodec as rc

BV = [0x00, 0x01, 0x0f, 0x10, 0x7f, 0x80, 0xf0, 0xff]


def sfx_region(r):
    """Region r of 256: note words block (r%32) (32 consecutive regions cover all 65536 words), header cells
    rotated so that over 256 regions every header cell sees every value."""
    mem = bytearray(4352)
    base = (r % 32) * 2048
    rot = (r // 32) * 257
    for s in range(64):
        for n in range(32):
            w = (base + ((s * 32 + n + rot) % 2048)) & 0xffff
            mem[s * 68 + 2 * n] = w & 0xff
            mem[s * 68 + 2 * n + 1] = w >> 8
        for hb in range(4):
            mem[s * 68 + 64 + hb] = (r + s * 4 + hb) & 0xff
    return bytes(mem)


def gfx_region(k):
    mem = bytearray(0x2000)
    for r in range(128):
        for c in range(64):
            mem[r * 64 + c] = (r + 128 * k + c) & 0xff
    return bytes(mem)


def pair_region(size, per_row):
    mem = bytearray(size)
    rows = size // per_row
    for r in range(rows):
        a, b = BV[(r // 8) % 8], BV[r % 8]
        for c in range(per_row):
            mem[r * per_row + c] = a if c % 2 == 0 else b
    return bytes(mem)


def music_regions(tier):
    pats = []
    if tier == 'quick':
        combos = [(o, o, o) for o in BV]
    else:
        combos = [(a, b, c) for a in BV for b in BV for c in BV]
    for p in range(4):
        for oth in combos:
            for v in range(256):
                q = list(oth)
                q.insert(p, v)
                pats.append(bytes(q))
    regs = []
    for i in range(0, len(pats), 64):
        blk = pats[i:i + 64]
        while len(blk) < 64:
            blk.append(b'\x41\x42\x43\x44')
        regs.append(b''.join(blk))
    return regs


def rot_region(size, k):
    return bytes((i + k) & 0xff for i in range(size))


def seeded_region(size, seed, salt):
    """Deterministic pseudo-random fill (LCG); used only as arbitrary initial / distinct contents."""
    x = (seed * 2654435761 + salt * 40503 + 12345) & 0xffffffff
    out = bytearray(size)
    for i in range(size):
        x = (x * 1103515245 + 12345) & 0x7fffffff
        out[i] = (x >> 16) & 0xff
    return bytes(out)


def make_game(fills, version=8, code_lines=(), label=None):
    """A real picotool Game with the given region images."""
    from pico8.game.game import Game
    from pico8.lua.lua import Lua
    from pico8.gfx.gfx import Gfx
    g = Game.make_empty_game(version=version)
    g.version = version
    for name, (lo, hi) in rc.REGION_ORDER:
        if name in fills:
            getattr(g, name)._data = bytearray(fills[name])
    g.lua = Lua.from_lines(list(code_lines), version=version)
    g.label = Gfx.from_bytes(bytearray(label), version=version) if label is not None else None
    return g


def game_regions(g):
    return {name: bytes(getattr(g, name).to_bytes()) for name, _ in rc.REGION_ORDER}


def mask_music(m):
    return bytes((x & 0x7f) if i % 4 == 3 else x for i, x in enumerate(m))


def region_fills(variant, seed):
    out = {}
    for idx, (name, (lo, hi)) in enumerate(rc.REGION_ORDER):
        if variant % 3 == 0:
            out[name] = bytes(((idx + 1) * 17 + (i % 13) + variant) & 0xff for i in range(hi - lo))
        elif variant % 3 == 1:
            out[name] = seeded_region(hi - lo, seed, idx * 100 + variant)
        else:
            out[name] = bytes((0xff - idx * 16 - (i & 7) - variant) & 0xff for i in range(hi - lo))
    return out
