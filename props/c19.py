"""C19 — luamin keeps the title and author comments that PICO-8 reads.

All header shapes: every sequence of <= N items over {-- c, // c, --[[c]], --[[c LF d]], space, TAB, LF,
CRLF} followed by {nothing, code on the same line, code on the next line}, through the real token minifier
(state machine observed as in C01).  Oracle: the first two comments before any code (as the reference lexer
sees them) open the output, verbatim, each on its own line; title/byline read by picotool from the input
are read identically from the output; later comments never become code and code never becomes a comment
(the C01 token oracle).
"""
from lib import reflex
from lib.core import ShardResult
from props import c01

LEVEL = 'model_checking'
RULE = ('every sequence of <= N header items (quick N=4, thorough N=5) over 8 item kinds x 3 followers x 3 code bodies '
        'rotated; states/transitions = distinct states / (state, token class, state) triples of the real '
        'LuaMinifyTokenWriter; non-trivial = header with at least one comment; distinct = distinct source')
ASSUMPTIONS = ['comments are identified by the reference lexer',
               '"on its own line" accepts LF or CRLF after the comment']
BOUNDS = {'quick': {'items': 4}, 'thorough': {'items': 5}}

ITEMS = ['--', '//', 'blk', 'blk2', ' ', '\t', '\n', '\r\n']
BODIES = [b'x=1\ny=2 -- later\n', b'function _init() end -- z\n', b'if (a) b=1 // q\n--[[ tail ]]\n']


def item_bytes(kind, idx):
    if kind == '--':
        return b'-- c%d' % idx
    if kind == '//':
        return b'// c%d' % idx
    if kind == 'blk':
        return b'--[[c%d]]' % idx
    if kind == 'blk2':
        return b'--[[c%d\nd]]' % idx
    return kind.encode()


def header_source(seq, follower, body):
    parts = []
    for i, k in enumerate(seq):
        parts.append(item_bytes(k, i))
    hdr = b''.join(parts)
    if follower == 'nothing':
        return hdr
    if follower == 'same-line':
        return hdr + body
    return hdr + b'\n' + body


def nth_seq(idx, k):
    ln = 0
    n = 1
    while idx >= n:
        idx -= n
        ln += 1
        n *= k
    out = []
    for _ in range(ln):
        out.append(ITEMS[idx % k])
        idx //= k
    return list(reversed(out))


def count_seqs(maxlen, k):
    return sum(k ** i for i in range(maxlen + 1))


def shape_class(seq):
    return '+'.join({'--': 'L', '//': 'S', 'blk': 'B', 'blk2': 'M', ' ': 'sp', '\t': 'tab', '\n': 'nl', '\r\n': 'crlf'}[k]
                    for k in seq) or 'empty'


def check_header(seq, follower, body, res):
    src = header_source(seq, follower, body)
    check_src(src, {'src': src, 'seq': list(seq), 'follower': follower}, shape_class(seq), follower, res)


HEADERS = [b'', b'-- t\n-- a\n', b'--[[t]]\n// a\n']


def check_bodies(tier, k, n, res):
    """Dropped comments inside the code: every adjacent terminal pair of the grammar in a shortest valid program,
    with a block / line comment (every comment-bearing separator legal there) in the gap between the two, below
    each header."""
    from props import c08
    from lib import luagen as L
    for prog in c08.programs(tier, 'pairs', k, n):
        if isinstance(prog, tuple):
            continue
        a, b = prog.pair
        m = len(prog.toks)
        for g in range(1, m):
            if prog.toks[g - 1].cls == a and prog.toks[g].cls == b:
                for sep in L.legal_seps(prog, g):
                    if b'--' not in sep and b'//' not in sep:
                        continue
                    body = L.assemble(prog, {g: sep})
                    for hdr in HEADERS:
                        src = hdr + body
                        check_src(src, {'src': src, 'body': True}, 'body', 'pair-gap-comment', res)


# every spelling a comment can take, for the 'kinds' family (the 'hdr' family keeps four of them short so that
# sequences of 4-5 items stay enumerable)
COMMENT_KINDS = [b'-- c', b'// c', b'--[[c]]', b'--[[c\nd]]', b'--[[c\n\n  d]]', b'--[=[c\n \n\nd]=]', b'--[=[c]=]', b'--[==[c\nd]==]', b'--[=[a]]b]=]',
                 b'--[==[a]=]b\n]]c]==]', b'-- c \t', b'--c]]', b'//c--d', b'--', b'//', b'--[', b'--[=', b'--\x80\xff']
KIND_SEPS = [b'\n', b' ', b'\r\n', b'']


def kinds_cases():
    """(source, tag): every ordered pair of comment spellings x separator, optionally a third (ordinary) comment, then
    code on the same / next line or nothing. Only sources the reference lexer accepts and in which the first two
    comments end where the separator starts (a line comment followed by '' or ' ' swallows the next item: those
    combinations simply give a different, still valid, header and are kept)."""
    for a in COMMENT_KINDS:
        for b in COMMENT_KINDS:
            for s1 in KIND_SEPS:
                for third in (None, b'-- z', b'--[[z]]'):
                    for fol in (b'', b'x=1\n', b'\nx=1 -- t\n'):
                        src = a + s1 + b + (b'\n' + third if third else b'') + fol
                        yield src


def check_kinds(k, n, res):
    for i, src in enumerate(kinds_cases()):
        if i % n != k:
            continue
        check_src(src, {'src': src, 'kinds': True}, 'kinds', 'kinds', res)


def check_src(src, case, shape, follower, res):
    lua = c01.lua_mod()
    res.evaluations += 1
    try:
        intoks = reflex.lex(src)
    except reflex.Reject:
        res.count('rejected_by_reference')
        return
    if any(t.kind == 'comment' for t in intoks):
        res.nontriv(src)
    try:
        obj, out = c01.minify(src, 'default', res)
    except Exception as e:
        res.violation('C19|raise|%s' % type(e).__name__, 'luamin(%r) raised %r' % (src, e), case)
        return
    # the same source fed one line per chunk (the .p8 path) gives the same output
    if b'\n' in src[:-1]:
        parts = src.split(b'\n')
        chunks = [p_ + b'\n' for p_ in parts[:-1]] + ([parts[-1]] if parts[-1] else [])
        try:
            _, out_chunked = c01.minify(src, 'default', None, chunks=chunks)
        except Exception as e:
            res.violation('C19|chunked-raise|%s' % type(e).__name__, 'luamin(%r) fed per line raised %r' % (src, e), case)
            return
        if out_chunked != out:
            res.violation('C19|chunked-differs', 'luamin(%r) = %r as one chunk but %r when the source arrives one line per chunk' % (
                src, out, out_chunked), case)
            return
    # leading comments of the input
    lead = []
    for t in intoks:
        if t.kind == 'comment':
            lead.append(t)
        elif t.kind in ('space', 'newline'):
            continue
        else:
            break
    want = [t.text for t in lead[:2]]
    try:
        outtoks = reflex.lex(out)
    except reflex.Reject as e:
        res.violation('C19|output-unlexable|%s' % shape[:20], 'luamin(%r) = %r does not lex: %s' % (src, out, e), case)
        return
    k = 0
    for n, w in enumerate(want):
        ok = (k + 1 < len(outtoks) + 1 and k < len(outtoks) and outtoks[k].kind == 'comment' and outtoks[k].text == w and
              (k + 1 >= len(outtoks) or outtoks[k + 1].kind == 'newline'))
        if not ok:
            got = outtoks[k].text if k < len(outtoks) else None
            res.violation('C19|header-comment-%d|%s' % (n + 1, comment_kind(w)),
                          'luamin(%r) = %r: comment %d of the header %r is not at the top on its own line (found %r)' % (
                              src, out, n + 1, w, got), case)
            return
        k += 2
    # title / byline as picotool (stats) reads them
    try:
        re_obj = lua.Lua.from_lines([out], version=8)
    except Exception as e:
        res.violation('C19|output-unloadable|%s' % type(e).__name__, 'luamin(%r) = %r cannot be loaded: %s' % (src, out, e), case)
        return
    t_in, b_in = obj.get_title(), obj.get_byline()
    if t_in is not None and re_obj.get_title() != t_in:
        res.violation('C19|title|%s' % comment_kind(want[0] if want else b''),
                      'title %r read from the input, %r from luamin output %r' % (t_in, re_obj.get_title(), out), case)
        return
    # stats takes the byline from the third token; it is the property's business only when that token is the second
    # header comment
    if b_in is not None and not (len(want) > 1 and b_in == want[1][2:].strip()):
        res.count('byline_not_from_second_header_comment')
        b_in = None
    if b_in is not None and re_obj.get_byline() != b_in:
        res.violation('C19|byline|%s' % comment_kind(want[1] if len(want) > 1 else b''),
                      'byline %r read from the input, %r from luamin output %r' % (b_in, re_obj.get_byline(), out), case)
        return
    # the C01 token oracle: nothing becomes code, nothing becomes a comment
    r = ShardResult()
    c01.check_minified(None, src, 'default', r, 'header', obj, out)
    for sig, v in r.violations.items():
        res.violation(sig.replace('C01|', 'C19|tokens|', 1), v[0], case)
    if not r.violations:
        res.outcome((len(want), follower))


def comment_kind(c):
    if c.startswith(b'//'):
        return '//'
    if c.startswith(b'--[['):
        return '--[[ml' if b'\n' in c else '--[['
    return '--'


def cli_batch(res):
    """Header shapes through `p8tool luamin` on .p8 and .p8.png carts: the written cart starts with the two comments."""
    import os
    import shutil
    import tempfile
    from pico8 import tool
    from pico8.game import file as p8file
    from lib import carts
    d = tempfile.mkdtemp(prefix='c19_')
    try:
        shapes = [(['--', '\n', '--', '\n'], 'next-line'), (['//', '\n', ' ', '//'], 'next-line'), (['blk', '\n', '--'], 'next-line'),
                  (['\n', '--', '\n', '\t', '--', '\n', '--'], 'next-line'), (['--', '\r\n', '--'], 'next-line'),
                  (['blk2', '\n', '//'], 'next-line'), (['--'], 'next-line'), ([], 'same-line'), (['blk', 'blk'], 'same-line')]
        # comments that mention an include directive, next to a file of that name (a cart file is scanned for include
        # lines before it is lexed: only lines that START with the directive are includes)
        open(os.path.join(d, 'inc.lua'), 'wb').write(b'included=12345\n')
        for text in (b'-- my game\n--#include inc.lua\nx=1\n', b'-- t\n-- see #include inc.lua for more\ny=2\n',
                     b'//#include inc.lua\n// b\nz=3\n', b'--[[ #include inc.lua ]]\n-- a\nz=3\n',
                     b'-- t\n-- a\nx=1 -- #include inc.lua\ny=2\n',
                     # header comments whose lines end in blanks / TABs (the comment's text runs to the line end)
                     b'-- my game  \n-- by me\t\nx=1\n', b'// title \n//\t \nx=1\n', b'--[[ a  \n  b\t\n]]\n-- c \ny=2\n',
                     b'--[=[ a \n \n\t\nb ]=] \n--   \nz=3\n',
                     # header comments holding glyphs of the low range only (bytes 16..31, 127), of the high range only, both
                     b'-- block drop \x1b v1.2\n-- by \x7f studio\nx=1\n', b'// \x10\x11\x1f\n--[[\x1c\x1d]]\nx=1\n',
                     b'-- \x8e jump \x97\n-- \x1e and \x99\ny=2\n'):
            shapes.append((None, text))
        for n, (seq, fol) in enumerate(shapes):
            src = fol if seq is None else header_source(seq, fol, BODIES[n % 3])
            for ext in ('.p8', '.p8.png'):
                res.evaluations += 1
                case = {'src': src, 'seq': list(seq or ()), 'follower': fol if seq is not None else 'text', 'cli': ext}
                try:
                    intoks = reflex.lex(src)
                    obj, want = c01.minify(src.replace(b'\r', b' ') if ext == '.p8.png' else src, 'default')
                except Exception:
                    continue
                res.nontriv(('cli', src, ext))
                inp = os.path.join(d, 'h%d%s' % (n, ext))
                try:
                    p8file.to_file(carts.make_game({}, version=33, code_lines=[src]), inp)
                except Exception as e:
                    res.violation('C19|cli|input-cart-raise|%s' % type(e).__name__, 'the valid source %r cannot be saved as a cart: %r' % (src, e), case)
                    continue
                try:
                    rc_ = tool.main(['luamin', inp])
                    got = b''.join(p8file.from_file(os.path.join(d, 'h%d_fmt%s' % (n, ext))).lua.to_lines())
                except Exception as e:
                    res.violation('C19|cli|raise|%s' % type(e).__name__, 'p8tool luamin on %r raised %r' % (src, e), case)
                    continue
                lead = [t.text for t in intoks if t.kind == 'comment'][:0]
                lead = []
                for t in intoks:
                    if t.kind == 'comment':
                        lead.append(t.text)
                    elif t.kind not in ('space', 'newline'):
                        break
                k = 0
                try:
                    outtoks = reflex.lex(got)
                except reflex.Reject:
                    res.violation('C19|cli|unlexable|%s' % ext, 'p8tool luamin wrote %r for %r' % (got, src), case)
                    continue
                ok = True
                for w in lead[:2]:
                    w2 = w.replace(b'\r', b' ') if ext == '.p8.png' else w
                    if not (k < len(outtoks) and outtoks[k].kind == 'comment' and outtoks[k].text.rstrip() == w2.rstrip() and
                            (k + 1 >= len(outtoks) or outtoks[k + 1].kind == 'newline')):
                        res.violation('C19|cli|header-comment|%s' % ext,
                                      'p8tool luamin on a %s cart with code %r wrote %r: header comment %r is not at the top on its '
                                      'own line' % (ext, src, got, w), case)
                        ok = False
                        break
                    k += 2
                if ok and got.rstrip(b'\n') != want.rstrip(b'\n'):
                    res.violation('C19|cli|differs-from-writer|%s' % ext,
                                  'p8tool luamin on a %s cart with code %r wrote %r, the minifier gives %r for that code' % (
                                      ext, src, got, want), case)
                    ok = False
                if ok:
                    res.outcome(('cli', ext, len(lead[:2])))
        # header comments that arrive in an #include'd .lua file - with and without a final newline (a comment ends
        # where its file ends), one or two files, the program's first line following directly
        for hn, (files, cart_code, want_head) in enumerate([
                ({'hdr.lua': b'-- my game\n-- by me'}, b'#include hdr.lua\nscore=100\n', [b'-- my game', b'-- by me']),
                ({'hdr.lua': b'-- my game\n-- by me\n'}, b'#include hdr.lua\nscore=100\n', [b'-- my game', b'-- by me']),
                ({'t.lua': b'// title', 'a.lua': b'--[[ author ]]'}, b'#include t.lua\n#include a.lua\nscore=100\n', [b'// title', b'--[[ author ]]']),
                ({'t.lua': b'-- title'}, b'#include t.lua\n-- author\nscore=100\n', [b'-- title', b'-- author'])]):
            sub = os.path.join(d, 'inc%d' % hn)
            os.makedirs(sub)
            for fn, data in files.items():
                open(os.path.join(sub, fn), 'wb').write(data)
            inp = os.path.join(sub, 'c.p8')
            open(inp, 'wb').write(b'pico-8 cartridge // http://www.pico-8.com\nversion 33\n__lua__\n' + cart_code + b'__gfx__\n' + b'0' * 128 + b'\n')
            res.evaluations += 1
            res.nontriv(('cli-include-header', hn))
            case = {'src': cart_code, 'cli': 'include-header', 'seq': [], 'follower': 'text'}
            try:
                rc_ = tool.main(['luamin', inp])
                got = b''.join(p8file.from_file(os.path.join(sub, 'c_fmt.p8')).lua.to_lines())
            except Exception as e:
                res.violation('C19|cli|raise|%s' % type(e).__name__, 'p8tool luamin on a cart whose header comments come from %r raised %r' % (sorted(files), e), case)
                continue
            glines = got.split(b'\n')
            if glines[:2] != want_head or b'=100' not in b'\n'.join(glines[2:]):
                res.violation('C19|cli|header-comment|included',
                              'cart %r with %r: p8tool luamin wrote %r; the first two comments %r are not verbatim at the top, or the '
                              'program after them is gone' % (cart_code, files, got[:80], want_head), case)
            else:
                res.outcome(('cli', 'include-header', hn))
    finally:
        shutil.rmtree(d, ignore_errors=True)


def shards(tier, seed):
    total = count_seqs(BOUNDS[tier]['items'], len(ITEMS))
    n = 32 if tier == 'quick' else 128
    step = (total + n - 1) // n
    nb = 8 if tier == 'quick' else 16
    return ([('hdr', tier, lo, min(total, lo + step)) for lo in range(0, total, step)] + [('cli',)] +
            [('bodies', tier, k, nb) for k in range(nb)] + [('kinds', k, 8) for k in range(8)])


FOLLOWERS = ['nothing', 'same-line', 'next-line']


def run_shard(item):
    res = ShardResult()
    if item[0] == 'cli':
        cli_batch(res)
        res.sample({'cli': 'p8tool luamin on .p8 and .p8.png carts with 9 header shapes'})
        return res
    if item[0] == 'kinds':
        check_kinds(item[1], item[2], res)
        res.sample({'kinds': 'pairs of comment spellings incl. levelled long comments', 'example': b'--[=[a]]b]=]\n// c\nx=1\n'})
        return res
    if item[0] == 'bodies':
        check_bodies(item[1], item[2], item[3], res)
        res.sample({'bodies': 'header + pair witness with a comment in the pair gap', 'example': b'-- t\n-- a\ny=x- --[[c]] -3\n'})
        return res
    _, tier, lo, hi = item
    for idx in range(lo, hi):
        seq = nth_seq(idx, len(ITEMS))
        for j, f in enumerate(FOLLOWERS):
            check_header(seq, f, BODIES[(idx + j) % len(BODIES)], res)
    res.sample({'header': header_source(nth_seq(hi - 1, len(ITEMS)), 'next-line', BODIES[0])}, limit=1)
    return res


def finalize(total):
    total.states = len(total.sets.get('writer_states', ()))
    total.transitions = len(total.sets.get('writer_transitions', ()))


def replay(case):
    res = ShardResult()
    if case.get('cli'):
        cli_batch(res)
        return [(s, v[0]) for s, v in res.violations.items()]
    if case.get('kinds'):
        check_src(case['src'], case, 'kinds', 'kinds', res)
        return [(s, v[0]) for s, v in res.violations.items()]
    if case.get('body'):
        check_src(case['src'], case, 'body', 'pair-gap-comment', res)
        return [(s, v[0]) for s, v in res.violations.items()]
    src = case['src']
    seq = case['seq']
    for body in BODIES:
        if header_source(seq, case['follower'], body) == src:
            check_header(seq, case['follower'], body, res)
    return [(s, v[0]) for s, v in res.violations.items()]
