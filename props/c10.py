"""C10 — luafmt output is canonical: indentation follows nesting; idempotent; insensitive to input indentation.

Programs from the dialect grammar laid out one statement per line (and with extra line breaks inside
brackets), then perturbed line by line (leading/trailing blanks, tabs, blank-line runs, own-line comments);
deviation-bounded in the number of perturbed lines.  Oracles: fmt(variant) == fmt(base);
fmt(fmt(p)) == fmt(p); every output line that begins with a code token is indented by width x depth(token)
(depth from the derivation); no trailing blanks; no double blank lines; no blank line at the end.
"""
import re

from lib import luagen as L
from lib import reflex
from lib import core
from lib.core import ShardResult, h64
from props import c08

LEVEL = 'exploration'
RULE = ('every program of the families nest (block hosts nested to depth 3 around every statement kind), seq (ordered '
        'statement pairs) and stat (<= D deviations; quick D=1 capped at 9 tokens, thorough D=2 capped at 14 tokens) in two line layouts (one '
        'statement per line; additionally broken after { ( , and before } )); perturbations per line: leading '
        '{" ", TAB, 5 spaces} x trailing {"", " ", TAB+space} and trailing-only; blank-line runs {1,3,blank-with-spaces} '
        'between any two lines; an own-line comment (-- or //) before any line with leading {"", " ", TAB, 5 spaces}; '
        'all variants with one perturbed place (thorough: two places for programs of <= 6 lines); indent widths 0-8 '
        '(quick: base at {0,2,8}, variants rotate over them); non-trivial = program with >= 2 lines or nesting depth >= 1')
ASSUMPTIONS = ['token depth (blocks + brackets open, closing token already closed) comes from the derivation',
               'physical lines that end inside a multi-line string token are exempt from the whitespace rules',
               'blank-line runs of length 1, 3 and whitespace-only blank lines are the same line structure']
BOUNDS = {'quick': {'perturbed_places': 1, 'widths': [0, 2, 8], 'stat_deviations': 1, 'max_tokens': 13},
          'thorough': {'perturbed_places': 2, 'widths': list(range(9)), 'stat_deviations': 2}}

LEADS = [b' ', b'\t', b'     ']
TRAILS = [b'', b' ', b'\t ']
COMMENT_TRAILS = [b'', b'\t', b' \t ']


def lua_mod():
    from pico8.lua import lua
    return lua


def fmt(src, width):
    lua = lua_mod()
    obj = lua.Lua.from_lines([src], version=core.lua_version(src))
    return b''.join(obj.to_lines(writer_cls=lua.LuaFormatterWriter, writer_args={'indentwidth': width}))


def build(lines, lead=None, trail=None, blanks=None, comments=None):
    """lines: list of bytes. lead/trail: dict line -> bytes. blanks: dict i -> run (inserted before line i).
    comments: dict i -> (lead, text) inserted as own line before line i."""
    out = []
    for i, ln in enumerate(lines):
        if comments and i in comments:
            cl, ct = comments[i]
            out.append(cl + ct + b'\n')
        if blanks and i in blanks:
            out.append(blanks[i])
        out.append((lead or {}).get(i, b'') + ln + (trail or {}).get(i, b'') + b'\n')
    return b''.join(out)


BLANK_RUNS = [b'\n', b'\n\n\n', b'  \n', b'\t\n \n']


def check_output_shape(prog, src, out, width, res, case, tail):
    """Indentation, trailing blanks, blank-line rules on one formatter output."""
    try:
        toks = reflex.lex(out)
    except reflex.Reject as e:
        res.violation('C10|output-unlexable|%s' % tail, 'luafmt(%r) = %r does not lex' % (src, out), case)
        return False
    # physical lines; find lines ending inside a multi-line token
    inside = set()
    for t in toks:
        if t.kind in ('string', 'comment') and (b'\n' in t.text):
            first = t.line
            nlines = t.text.count(b'\n')
            for k in range(first, first + nlines):
                inside.add(k)           # lines that END inside the token
            for k in range(first + 1, first + nlines + 1):
                inside.add(('starts-inside', k))
    lines = out.split(b'\n')
    if lines and lines[-1] == b'':
        lines.pop()
    elif out:
        pass
    for i, ln in enumerate(lines):
        if i in inside:
            continue
        if ln != ln.rstrip(b' \t\r'):
            res.violation('C10|trailing-blank|%s' % ('blank-line' if ln.strip() == b'' else 'code-line'),
                          'luafmt(%r, width %d) = %r: line %d ends in whitespace' % (src, width, out, i), case)
            return False
    for i in range(len(lines) - 1):
        if lines[i].strip() == b'' and lines[i + 1].strip() == b'' and i not in inside and ('starts-inside', i) not in inside \
                and ('starts-inside', i + 1) not in inside:
            res.violation('C10|double-blank', 'luafmt(%r) = %r: two consecutive blank lines' % (src, out), case)
            return False
    if lines and lines[-1].strip() == b'' and ('starts-inside', len(lines) - 1) not in inside:
        res.violation('C10|blank-at-end', 'luafmt(%r) = %r: blank line at the end' % (src, out), case)
        return False
    if out and not out.endswith(b'\n') and prog is not None:
        pass
    # indentation of every line that begins with a code token
    if prog is not None:
        sig = reflex.significant(toks)
        exp = L.expected_ref_tokens(prog)
        if [t.text for t in sig] != exp:
            # token preservation is C09's business; without it depths cannot be aligned
            res.count('skipped_indent_check_tokens_differ')
            return True
        depth = []
        for t in prog.toks:
            depth += [t.depth] * (3 if t.cls.startswith('LABEL') else 1)
        first_on_line = {}
        for k, t in enumerate(toks):
            pass
        seen_lines = set()
        idx = 0
        for t in toks:
            if t.kind in ('space', 'newline'):
                continue
            if t.kind == 'comment':
                seen_lines.add(t.line)
                # a multi-line comment occupies further lines
                for k in range(t.line, t.line + t.text.count(b'\n') + 1):
                    seen_lines.add(k)
                continue
            if t.line not in seen_lines:
                seen_lines.add(t.line)
                want = width * depth[idx]
                if t.col != want or out.split(b'\n')[t.line][:t.col].strip(b' ') != b'':
                    res.violation('C10|indent|%s|depth%d%s' % (tok_class(t), depth[idx], '|' + tail if tail.startswith('cli') else ''),
                                  'luafmt(%r, width %d) = %r: line %d begins with %r at column %d, nesting depth %d '
                                  'requires %d' % (src, width, out, t.line, t.text, t.col, depth[idx], want), case)
                    return False
            for k in range(t.line, t.line + t.text.count(b'\n') + 1):
                seen_lines.add(k)
            idx += 1
    return True


def tok_class(t):
    if t.kind in ('keyword', 'symbol'):
        return t.text.decode('latin-1')
    return t.kind


def check_token_lines(prog, res, tier, fam, tail):
    """The program with EVERY token first on a line of its own (wherever the dialect allows a line break): each token's
    line is indented by the depth the derivation gives that token -- `do`, `then`, operators and operands of a broken
    loop / if header included --, the output is a fixed point, and it does not depend on the input's indentation."""
    widths = BOUNDS[tier]['widths']
    n = len(prog.toks)
    tl = []
    for i in range(n):
        if tl and (i in prog.no_nl):
            tl[-1].append(i)
        else:
            tl.append([i])
    lines = [L.line_text(prog, idxs) for idxs in tl]
    if len(lines) == len(L.canonical_lines(prog, False)):
        return
    base = build(lines)
    if not L.validate_source(prog, base):
        res.count('token_lines_layout_not_valid')
        return
    res.nontriv(base)
    for w in widths:
        res.evaluations += 1
        case = {'src': base, 'width': w, 'family': fam, 'variant': 'token-lines'}
        try:
            o = fmt(base, w)
        except Exception as e:
            res.count('formatter_raises')
            return
        if not check_output_shape(prog, base, o, w, res, case, tail):
            return
        try:
            o2 = fmt(o, w)
        except Exception as e:
            res.violation('C10|idempotence|raise|%s' % tail, 'luafmt of its own output %r raised %r' % (o, e), case)
            return
        if o2 != o:
            res.violation('C10|idempotence', 'luafmt(%r, %d) = %r but formatting that again gives %r' % (base, w, o, o2), case)
            return
        alt = build(lines, lead={i: LEADS[i % 3] for i in range(0, len(lines), 2)})
        res.evaluations += 1
        try:
            oa = fmt(alt, w)
        except Exception as e:
            res.violation('C10|variant-raise|%s|%s' % (type(e).__name__, tail), 'luafmt(%r) raised %r although %r formats' % (alt, e, base), case)
            return
        if oa != o:
            res.violation('C10|indent-sensitive', 'luafmt(%r, %d) = %r, but the same program indented differently (%r) gives %r' % (
                base, w, o, alt, oa), {'src': alt, 'width': w, 'family': fam, 'variant': 'token-lines', 'base': base})
            return
    res.outcome(('token-lines', tail))


def check_program(prog, res, tier, fam):
    widths = BOUNDS[tier]['widths']
    tail = c08.stat_kinds(prog)
    check_token_lines(prog, res, tier, fam, tail)
    for bb in (False, True):
        tl = L.canonical_lines(prog, bb)
        if bb and tl == L.canonical_lines(prog, False):
            continue
        lines = [L.line_text(prog, idxs) for idxs in tl]
        base = build(lines)
        if not L.validate_source(prog, base):
            res.violation('HARNESS-ERROR', 'generator self-check failed for %r' % base, {'src': base})
            return
        if len(lines) >= 2 or any(t.depth for t in prog.toks):
            res.nontriv(base)
        base_out = {}
        ok = True
        for w in widths:
            res.evaluations += 1
            case = {'src': base, 'width': w, 'family': fam, 'variant': 'base'}
            try:
                o = fmt(base, w)
            except Exception as e:
                res.count('formatter_raises')       # C09 decides whether luafmt may fail here
                ok = False
                break
            base_out[w] = o
            if not check_output_shape(prog, base, o, w, res, case, tail):
                ok = False
                break
            # idempotence
            try:
                o2 = fmt(o, w)
            except Exception as e:
                res.violation('C10|idempotence|raise|%s' % tail, 'luafmt of its own output %r raised %r' % (o, e), case)
                ok = False
                break
            if o2 != o:
                res.violation('C10|idempotence',
                              'luafmt(%r, %d) = %r but formatting that again gives %r' % (base, w, o, o2), case)
                ok = False
                break
        if not ok:
            continue
        res.outcome((tail, len(lines), bb))
        # one perturbed place
        variants = []
        n = len(lines)
        for i in range(n):
            for ld in [b''] + LEADS:
                for tr in TRAILS:
                    if ld == b'' and tr == b'':
                        continue
                    variants.append(('indent', i, build(lines, lead={i: ld}, trail={i: tr}), None))
        # blank-line runs: compare the runs with each other (same line structure)
        for i in range(1, n):
            group = [build(lines, blanks={i: run}) for run in BLANK_RUNS]
            variants.append(('blank-group', i, group, None))
        # own-line comments: all leading variants must format identically
        for i in range(n + 1):
            for ct in (b'-- c', b'// c', b'--[[c]]'):
                group = []
                for ld in [b''] + LEADS:
                    if i < n:
                        group.append(build(lines, comments={i: (ld, ct)}))
                    else:
                        group.append(build(lines) + ld + ct + b'\n')
                variants.append(('comment-group', i, group, ct))
            # blanks (incl. TABs) after an own-line comment: the line-comment token swallows them, the output may not
            # keep them
            for ct in ((b'-- c', b'--[[c]]') if i % 2 else (b'// c', b'--[[c]]')):
                group = []
                for tr in COMMENT_TRAILS:
                    if i < n:
                        group.append(build(lines, comments={i: (b'', ct + tr)}))
                    else:
                        group.append(build(lines) + ct + tr + b'\n')
                variants.append(('comment-group', i, group, ct))
        # an end-of-line comment after each line, followed by blanks / TABs
        for i in range(n):
            for ct in ((b' -- c',) if i % 2 else (b'// c',)):
                variants.append(('eolcomment-group', i, [build(lines, trail={i: ct + tr}) for tr in COMMENT_TRAILS], ct.strip()))
        # the last line left unterminated, with and without blanks after it: one output for all of them
        nonl = build(lines)[:-1]
        variants.append(('eof-group', n - 1, [nonl, nonl + b' ', nonl + b'\t ', nonl + b'    '], None))
        j = 0
        for kind, i, payload, extra in variants:
            w = widths[j % len(widths)]
            j += 1
            if kind == 'indent':
                res.evaluations += 1
                case = {'src': payload, 'width': w, 'family': fam, 'variant': 'indent', 'base': base}
                try:
                    o = fmt(payload, w)
                except Exception as e:
                    res.violation('C10|variant-raise|%s|%s' % (type(e).__name__, tail),
                                  'luafmt(%r) raised %r although the unperturbed %r formats' % (payload, e, base), case)
                    continue
                if o != base_out[w]:
                    res.violation('C10|indent-sensitive',
                                  'luafmt(%r, %d) = %r, but the same program indented differently (%r) gives %r' % (
                                      base, w, base_out[w], payload, o), case)
            else:
                outs = []
                for src in payload:
                    res.evaluations += 1
                    case = {'src': src, 'width': w, 'family': fam, 'variant': kind, 'base': base}
                    try:
                        outs.append(fmt(src, w))
                    except Exception as e:
                        res.violation('C10|variant-raise|%s|%s' % (type(e).__name__, tail),
                                      'luafmt(%r) raised %r although %r formats' % (src, e, base), case)
                        outs = None
                        break
                if outs is None:
                    continue
                case = {'src': payload[0], 'width': w, 'family': fam, 'variant': kind, 'base': base, 'group': payload}
                if not check_output_shape(prog, payload[0], outs[0], w, res, case,
                                          ('comment%s|' % extra.decode()[:2] if extra else 'eof|' if kind == 'eof-group' else 'blank|') + tail):
                    continue
                bad = next((k_ for k_, o in enumerate(outs) if any(ln_.endswith((b' ', b'\t')) for ln_ in o.split(b'\n'))), None)
                if bad is not None and kind in ('comment-group', 'eolcomment-group'):
                    res.violation('C10|trailing-blank|after-comment:%s' % extra.decode()[:2],
                                  'luafmt(%r, %d) = %r: a line ends in blanks' % (payload[bad], w, outs[bad]),
                                  {'src': payload[bad], 'width': w, 'family': fam, 'variant': kind, 'base': base, 'group': payload})
                    continue
                for src, o in zip(payload[1:], outs[1:]):
                    if o != outs[0]:
                        what = ('comment:%s' % extra.decode()[:2]) if kind in ('comment-group', 'eolcomment-group') else 'eof-blanks' if kind == 'eof-group' else 'blank-run'
                        res.violation('C10|%s-sensitive' % what,
                                      'luafmt(%r, %d) = %r but luafmt(%r, %d) = %r' % (payload[0], w, outs[0], src, w, o),
                                      {'src': src, 'width': w, 'family': fam, 'variant': kind, 'base': base,
                                       'group': payload})
                        break


MULTILINE = [
    (b'x = [[a\n  b  \nc]]\ny = 1\n', [0, 3]),
    (b'do\nx = [[\n\n\n]]\nend\n', [0, 1, 5]),
    (b'--[[ a\n   b  \n]]\nx = 1\n', [3]),
]


def check_multiline(res):
    """Lines inside multi-line tokens are not perturbed; the others are."""
    for src, free in MULTILINE:
        lines = src.split(b'\n')[:-1]
        for w in (0, 2, 8):
            res.evaluations += 1
            case = {'src': src, 'width': w, 'variant': 'multiline'}
            try:
                base = fmt(src, w)
            except Exception as e:
                res.count('formatter_raises')
                continue
            check_output_shape(None, src, base, w, res, case, 'multiline')
            for i in free:
                for ld in LEADS:
                    v = b'\n'.join(lines[:i] + [ld + lines[i]] + lines[i + 1:]) + b'\n'
                    res.evaluations += 1
                    try:
                        o = fmt(v, w)
                    except Exception as e:
                        res.violation('C10|variant-raise|%s|multiline' % type(e).__name__, 'luafmt(%r) raised %r' % (v, e),
                                      {'src': v, 'width': w, 'variant': 'multiline'})
                        continue
                    if o != base:
                        res.violation('C10|indent-sensitive|multiline', 'luafmt(%r) = %r but luafmt(%r) = %r' % (src, base, v, o),
                                      {'src': v, 'width': w, 'variant': 'multiline', 'base': src})


RUN_CONTEXTS = [
    # (name, text with @ where the run goes, depth of the run or None when not asserted)
    ('between-stats', b'x=1\n@y=2\n', 0),
    ('start', b'@x=1\n', 0),
    ('eof', b'x=1\n@', 0),
    ('in-do', b'do\n@x=1\nend\n', 1),
    ('before-end', b'do\nx=1\n@end\n', None),
    ('depth2', b'if a then\nwhile b do\n@x=1\nend\nend\n', 2),
    ('in-function', b'function f()\nlocal a=1\n@return a\nend\n', 1),
    ('in-table', b't={\n1,\n@2}\n', None),
]
RUN_MAX = {'quick': 20, 'thorough': 40}
RUN_KINDS = [('dash', (b'-- c%d',)), ('slash', (b'// c%d',)), ('mixed', (b'-- c%d', b'// c%d')),
             ('code', (b'-- x=%d',)), ('blank-between', (b'-- c%d', b''))]
RUN_LEADS = [b'', b' ', b'\t', b'     ']


def check_runs(res, tier, only=None):
    """Runs of 1..N own-line comments (and blank lines) in one gap between two code tokens: the output must not
    depend on how the run's lines are indented in the input, whatever the length of the run."""
    for cname, ctx, depth in RUN_CONTEXTS:
        if only is not None and cname != only:
            continue
        for kname, pats in RUN_KINDS:
            for n in range(1, RUN_MAX[tier] + 1):
                body = [pats[i % len(pats)] % i if pats[i % len(pats)] else b'' for i in range(n)]
                variants = []
                for ld in RUN_LEADS:
                    variants.append(b''.join((ld + l if l else ld) + b'\n' for l in body))
                variants.append(b''.join(RUN_LEADS[i % 4] + l + b'\n' for i, l in enumerate(body)))
                variants.append(b''.join(RUN_LEADS[(n - i) % 4] + l + b' \n' for i, l in enumerate(body)))
                for w in (2, 0, 5):
                    outs = []
                    for v in variants:
                        src = ctx.replace(b'@', v)
                        res.evaluations += 1
                        case = {'src': src, 'width': w, 'variant': 'runs', 'ctx': cname, 'kind': kname, 'n': n}
                        try:
                            outs.append(fmt(src, w))
                        except Exception as e:
                            res.violation('C10|runs|raise|%s|%s' % (type(e).__name__, cname),
                                          'luafmt(%r, %d) raised %r' % (src, w, e), case)
                            outs = None
                            break
                    if outs is None:
                        continue
                    res.nontriv((cname, kname, n, w))
                    for v, o in zip(variants[1:], outs[1:]):
                        if o != outs[0]:
                            res.violation('C10|runs|indent-sensitive|%s|%s' % (cname, kname),
                                          'run of %d comment lines (%s): luafmt(%r, %d) = %r but with the run indented '
                                          'differently (%r) it gives %r' % (n, cname, ctx.replace(b'@', variants[0]), w,
                                                                           outs[0], ctx.replace(b'@', v), o),
                                          {'src': ctx.replace(b'@', v), 'width': w, 'variant': 'runs', 'ctx': cname,
                                           'kind': kname, 'n': n})
                            break
                    if depth is not None:
                        want = b' ' * (w * depth)
                        for line in outs[0].split(b'\n'):
                            st = line.lstrip(b' \t')
                            if st.startswith((b'-- c', b'// c', b'-- x=')) and line[:len(line) - len(st)] != want:
                                res.violation('C10|runs|comment-indent|%s|%s' % (cname, kname),
                                              'run of %d comment lines at depth %d, width %d: output line %r is not '
                                              'indented by %d spaces' % (n, depth, w, line, w * depth),
                                              {'src': ctx.replace(b'@', variants[0]), 'width': w, 'variant': 'runs',
                                               'ctx': cname, 'kind': kname, 'n': n})
                                break
                    res.outcome(('runs', cname, kname, min(n, 3)))
            # blank-line runs of the same length with different blanks inside
            for n in range(1, RUN_MAX[tier] + 1):
                if kname != 'dash':
                    break
                variants = [b'\n' * n, b'  \n' * n, b'\t\n' * n, b''.join(RUN_LEADS[i % 4] + b'\n' for i in range(n))]
                for w in (2, 0):
                    outs = []
                    for v in variants:
                        src = ctx.replace(b'@', v)
                        res.evaluations += 1
                        try:
                            outs.append(fmt(src, w))
                        except Exception as e:
                            res.violation('C10|runs|raise|%s|%s' % (type(e).__name__, cname),
                                          'luafmt(%r, %d) raised %r' % (src, w, e),
                                          {'src': src, 'width': w, 'variant': 'runs'})
                            outs = None
                            break
                    if outs and any(o != outs[0] for o in outs):
                        res.violation('C10|runs|blank-run-sensitive|%s' % cname,
                                      'run of %d blank lines (%s): output depends on the blanks inside the blank lines: %r' % (
                                          n, cname, outs), {'src': ctx.replace(b'@', variants[1]), 'width': w, 'variant': 'runs'})


def shortif_else(prog):
    """The program has a line-scoped if with an else part."""
    for (f, l) in prog.scopes:
        if prog.toks[f].cls == 'if' and any(t.cls == 'else' for t in prog.toks[f:l + 1]):
            return True
    return False


def cli_widths(res):
    """`p8tool luafmt --indentwidth W` for every W in 0..8 (and the default): the option must reach the writer."""
    import os
    import shutil
    import tempfile
    from pico8 import tool
    from pico8.game import file as p8file
    from lib import carts
    d = tempfile.mkdtemp(prefix='c10_')
    try:
        progs = []
        for i, tree in enumerate(c08.fam_nest()):
            if i in (41, 300, 1500):
                progs.append(L.render(tree))
        progs.append(L.render(L.wrap_stats([c08.host_with_block('function', c08.block_of(
            [c08.shortif_else_stat(), L.default_stat('local')])), L.default_stat('assign')])))
        n = 0
        for prog in progs:
            if prog is None:
                continue
            base = build([L.line_text(prog, idxs) for idxs in L.canonical_lines(prog, True)])
            for w in [None] + list(range(9)):
                # the cart as .p8 and as .p8.png (each format has its own writer glue)
                for ext in ('.p8', '.p8.png'):
                    n += 1
                    path = os.path.join(d, 'c%d%s' % (n, ext))
                    args = ['luafmt'] + ([] if w is None else ['--indentwidth', str(w)]) + [path]
                    res.evaluations += 1
                    case = {'src': base, 'width': w, 'variant': 'cli'}
                    try:
                        p8file.to_file(carts.make_game({}, version=33, code_lines=[base]), path)
                    except Exception as e:
                        res.violation('C10|cli|input-cart-raise|%s' % type(e).__name__, 'the valid program %r cannot be saved as a cart: %r' % (base, e), case)
                        continue
                    try:
                        rc_ = tool.main(args)
                        out = b''.join(p8file.from_file(os.path.join(d, 'c%d_fmt%s' % (n, ext))).lua.to_lines())
                    except Exception as e:
                        res.violation('C10|cli|raise|%s' % type(e).__name__, 'p8tool %r raised %r' % (args[:-1], e), case)
                        continue
                    res.nontriv(('cli', base, w, ext))
                    if check_output_shape(prog, base, out, 2 if w is None else w, res, case, 'cli-width-%s%s' % (w, '' if ext == '.p8' else '-png')):
                        res.outcome(('cli', w, ext))
    finally:
        shutil.rmtree(d, ignore_errors=True)


# ---------------------------------------------------------------- deep nesting (indentation = width x depth has no ceiling)
DEEP_OPENERS = [(b'do', b'end'), (b'if a then', b'end'), (b'while a do', b'end'), (b'for i=1,2 do', b'end'),
                (b'function f()', b'end'), (b'repeat', b'until a'), (b'for k,v in pairs(t) do', b'end'),
                (b'local function g(p)', b'end')]


def deep_program(depth, rot, kind):
    """(lines, depths): `depth` nested blocks (kinds rotated by `rot`), innermost either a statement, a nested table
    constructor / call laid out one item per line, or an own-line comment. depths[i] = blocks and brackets open at the
    first token of line i."""
    lines, depths = [], []
    closers = []
    for i in range(depth):
        op, cl = DEEP_OPENERS[(i + rot) % len(DEEP_OPENERS)]
        lines.append(op)
        depths.append(i)
        closers.append(cl)
    d = depth
    if kind == 'stat':
        lines += [b'x=1']
        depths += [d]
    elif kind == 'table':
        lines += [b't={', b'{', b'1,', b'},', b'f(', b'2', b')', b'}']
        depths += [d, d + 1, d + 2, d + 1, d + 1, d + 2, d + 1, d]
    elif kind == 'fields':
        # every kind of table field with a value that spans lines: positional, named, computed key (and a computed key
        # that itself spans lines), followed by an ordinary field
        lines += [b't={', b'[1]={', b'2,', b'},', b'["k"]=function()', b'x=1', b'end,', b'[k+1]=f(', b'3', b'),', b'n={', b'4', b'};',
                  b'[', b'q', b']=5,', b'function()', b'return', b'end,', b'6', b'}']
        depths += [d, d + 1, d + 2, d + 1, d + 1, d + 2, d + 1, d + 1, d + 2, d + 1, d + 1, d + 2, d + 1,
                   d + 1, d + 2, d + 1, d + 1, d + 2, d + 1, d + 1, d]
    else:
        lines += [b'-- c', b'x=1 // e']
        depths += [d, d]
    for i in range(depth - 1, -1, -1):
        lines.append(closers[i])
        depths.append(i)
    return lines, depths


def check_deep(tier, res):
    maxd = 18 if tier == 'quick' else 40
    for depth in list(range(1, 12)) + [12, 16, 17, maxd]:
        for kind in ('stat', 'table', 'fields', 'comment'):
            for rot in ((0, 3) if tier == 'quick' else range(len(DEEP_OPENERS))):
                lines, depths = deep_program(depth, rot, kind)
                base = b''.join(ln + b'\n' for ln in lines)
                messy = b''.join((b'\t' if i % 3 else b'   ' * (i % 5)) + ln + (b' ' if i % 4 == 0 else b'') + b'\n' for i, ln in enumerate(lines))
                for w in range(9):
                    res.evaluations += 1
                    res.nontriv(('deep', depth, kind, rot, w))
                    case = {'variant': 'deep', 'depth': depth, 'kind': kind, 'rot': rot, 'width': w, 'src': messy}
                    try:
                        o1 = fmt(base, w)
                        o2 = fmt(messy, w)
                        o3 = fmt(o1, w)
                    except Exception as e:
                        res.violation('C10|deep|raise|%s' % type(e).__name__, 'luafmt of %d nested blocks raised %r' % (depth, e), case)
                        continue
                    if o1 != o2 or o1 != o3:
                        res.violation('C10|deep|%s' % ('indent-sensitive' if o1 != o2 else 'idempotence'),
                                      'luafmt of %d nested blocks at width %d depends on the input indentation / is not idempotent' % (depth, w), case)
                        continue
                    out_lines = o1.split(b'\n')
                    if out_lines and out_lines[-1] == b'':
                        out_lines.pop()
                    got = [(len(ln) - len(ln.lstrip(b' ')), ln.strip()) for ln in out_lines if ln.strip()]
                    want = [(w * dd, ln) for ln, dd in zip(lines, depths)]
                    if [g_[1].replace(b' ', b'') for g_ in got] != [w_[1].replace(b' ', b'') for w_ in want]:
                        res.count('deep_line_structure_changed')       # C09 decides token preservation; the formatter keeps line breaks
                        continue
                    bad = next((i for i in range(len(got)) if got[i][0] != want[i][0]), None)
                    if bad is not None:
                        res.violation('C10|deep|indent|depth%s|width%d' % ('>' + str(32 // max(1, w)) if w and depths[bad] * w > 32 else str(depths[bad]), w),
                                      'luafmt --indentwidth %d: line %r sits %d blocks/brackets deep and is indented by %d blanks '
                                      '(must be %d)' % (w, got[bad][1], depths[bad], got[bad][0], want[bad][0]), case)
                        continue
                    res.outcome(('deep', kind, w))


def shards(tier, seed):
    n = 48 if tier == 'quick' else 128
    items = []
    for fam in ('nest', 'seq', 'stat'):
        nn = n if fam != 'seq' else n // 4
        for k in range(nn):
            items.append(('programs', 'c10', tier, fam, k, nn))
    items.append(('multiline',))
    items += [('runs', tier, c[0]) for c in RUN_CONTEXTS]
    items.append(('cli',))
    items.append(('deep', tier))
    return items


def run_shard(item):
    res = ShardResult()
    if item[0] == 'cli':
        cli_widths(res)
        res.sample({'cli': 'p8tool luafmt --indentwidth W for W in default,0..8'})
        return res
    if item[0] == 'deep':
        check_deep(item[1], res)
        res.sample({'deep': 'up to %d nested blocks x widths 0-8' % (18 if item[1] == 'quick' else 40), 'src': b''.join(ln + b'\n' for ln in deep_program(3, 0, 'table')[0])})
        return res
    if item[0] == 'runs':
        check_runs(res, item[1], item[2])
        res.sample({'src': RUN_CONTEXTS[3][1].replace(b'@', b'-- c0\n\t-- c1\n'), 'runs': '1..%d lines' % RUN_MAX[item[1]]})
        return res
    if item[0] == 'multiline':
        check_multiline(res)
        res.sample({'src': MULTILINE[0][0]})
        return res
    _, tag, tier, fam, k, n = item
    seen = set()
    for prog in c08.programs(tier, fam, k, n):
        if isinstance(prog, tuple):
            continue
        if fam == 'stat' and len(prog.toks) > (9 if tier == 'quick' else 14):
            continue
        if tier == 'quick' and len(prog.toks) > 13 and not (shortif_else(prog) and len(prog.toks) <= 20):
            continue
        hk = h64(b' '.join(prog.spellings()))
        if hk in seen:
            continue
        seen.add(hk)
        check_program(prog, res, tier, fam)
        if k == 0 and len(res.samples) < 1:
            res.sample({'family': fam, 'base': build([L.line_text(prog, i) for i in L.canonical_lines(prog)]),
                        'variant': build([L.line_text(prog, i) for i in L.canonical_lines(prog)], lead={0: b'\t'}, trail={0: b' '})})
    return res


def replay(case):
    res = ShardResult()
    if case.get('variant') == 'cli':
        cli_widths(res)
        return [(s, v[0]) for s, v in res.violations.items()]
    if case.get('variant') == 'deep':
        check_deep('thorough', res)
        return [(s, v[0]) for s, v in res.violations.items()]
    if case.get('variant') == 'runs':
        check_runs(res, 'thorough')
        return [(s, v[0]) for s, v in res.violations.items()]
    if case.get('variant') == 'multiline':
        check_multiline(res)
        return [(s, v[0]) for s, v in res.violations.items()]
    base = case.get('base', case['src'])
    fam = case.get('family', 'nest')
    from props import c09
    prog = c09.find_program(base, fam)
    if prog is None:
        return []
    for tier in ('quick', 'thorough'):
        r = ShardResult()
        check_program(prog, r, tier, fam)
        res.merge(r)
    return [(s, v[0]) for s, v in res.violations.items()]
