"""C03 — .p8 write/read round trip preserves the whole cart.

Covering family of carts (every unit value in every region and in the label, versions, Lua sources with
every byte value) -> P8Formatter.to_file -> bytes -> (a) independent structural reader, (b) picotool
reader -> compare regions/label/version/code; second write byte-identical; write/read chains; a batch
through file.to_file on a real path and through `p8tool writep8`.
"""
import io
import os
import shutil
import tempfile

from lib import carts
from lib import refcodec as rc
from lib.core import ShardResult

LEVEL = 'exploration'
RULE = ('covering family: carts realising all 65 536 sfx note words, all sfx header values, all byte values in every '
        'gfx/label column and gff/map offset, all music byte values (quick: others equal boundary values), with and '
        'without label; versions 0-40,255,256,65535; Lua sources: empty, no final newline, every byte value 1-255 in '
        'string / comment / identifier position, byte pairs in comments (quick: special bytes x all, thorough: all '
        '65 536), CRLF; each cart: write, independent read, picotool read, re-write, chain; non-trivial = cart with a '
        'non-zero region byte or non-empty code; distinct = distinct (regions, label, version, code)')
ASSUMPTIONS = ['unit independence of the section codecs (see C16)',
               'P8SCII<->Unicode conversion is a bijection (decided by C15) - used to decode the __lua__ section in the '
               'independent reader',
               'sources containing a line that reads as a __section__ header are outside the format (excluded)']
BOUNDS = {'quick': {'region_carts': 128, 'byte_pairs': 'special x all'},
          'thorough': {'region_carts': 256 + 64, 'byte_pairs': 'all 65536'}}


from lib import reflex


def p8fmt():
    from pico8.game.formatter.p8 import P8Formatter
    return P8Formatter


def to_unicode_bytes(b):
    from pico8.lua import lua
    return lua.p8scii_to_unicode(b).encode('utf-8')


def from_unicode_bytes(b):
    from pico8.lua import lua
    return lua.unicode_to_p8scii(b.decode('utf-8'))


def expected_code(code):
    if code == b'':
        return (b'', b'\n')
    if not code.endswith(b'\n'):
        return (code + b'\n',)
    return (code,)


def roundtrip(fills, label, version, code, res, tag, via='formatter', chain=1):
    """One cart through write/read. `code` is the P8SCII source as bytes."""
    P8 = p8fmt()
    case = {'tag': tag}
    res.evaluations += 1
    res.nontriv((tag,))
    try:
        g = carts.make_game(fills, version=version, code_lines=[code] if code else [], label=label)
    except Exception as e:
        # the source did not lex: outside the quantifier domain
        res.count('skipped_unlexable')
        return
    src_code = b''.join(g.lua.to_lines())
    if src_code != code:
        # echo changed the code already (C06 territory); use what the cart holds
        res.count('echo_differs_from_source')
    want_regions = {n: bytes(fills.get(n, carts.game_regions(g)[n])) for n, _ in rc.REGION_ORDER}
    want_regions['music'] = carts.mask_music(want_regions['music'])
    try:
        if via == 'formatter':
            buf = io.BytesIO()
            P8.to_file(g, buf, filename='t.p8')
            data = buf.getvalue()
        else:
            data = write_via(g, via)
    except Exception as e:
        res.violation('C03|write|raise|%s|%s' % (type(e).__name__, tag_class(tag)),
                      'writing cart %s raised %r' % (tag, e), case)
        return
    # (a) independent reader
    try:
        p = rc.parse_p8(data)
        regs = rc.p8_regions(p)
    except Exception as e:
        res.violation('C03|write|unreadable|%s' % tag_class(tag),
                      'independent .p8 reader rejects the written file for %s: %r' % (tag, e), case)
        return
    if p.version != version:
        res.violation('C03|version|ref', 'file says version %r, cart has %r' % (p.version, version), case)
    for n, _ in rc.REGION_ORDER:
        if regs[n] != want_regions[n]:
            res.violation('C03|region|ref|%s' % n,
                          'cart %s: independent reader sees a different %s region than the cart holds' % (tag, n), case)
    if (regs['label'] is None) != (label is None):
        res.violation('C03|label|presence', 'label %s in cart but %s in file' % (
            'absent' if label is None else 'present', 'absent' if regs['label'] is None else 'present'), case)
    elif label is not None and regs['label'] != bytes(label):
        res.violation('C03|label|ref', 'label pixels differ in file', case)
    try:
        lua_text = from_unicode_bytes(b''.join(l + b'\n' for l in p.sections.get('lua', [])))
    except Exception as e:
        res.violation('C03|code|ref-undecodable', '__lua__ section of %s is not decodable: %r' % (tag, e), case)
        lua_text = None
    if lua_text is not None and lua_text not in expected_code(src_code):
        res.violation('C03|code|ref|%s' % tag_class(tag),
                      'cart %s: code in file %r != cart code %r' % (tag, lua_text[:60], src_code[:60]), case)
    # (c) the same file read by NAME (file.from_file: what every CLI command and build use)
    from pico8.game import file as p8file
    dname = tempfile.mkdtemp(prefix='c03n_')
    try:
        pth = os.path.join(dname, 'rt.p8')
        open(pth, 'wb').write(data)
        try:
            g3 = p8file.from_file(pth)
            code3 = b''.join(g3.lua.to_lines())
            got3 = carts.game_regions(g3)
            if code3 not in expected_code(src_code):
                res.violation('C03|code|reread-by-name|%s' % tag_class(tag),
                              'cart %s: code after write + file.from_file(name) %r != %r' % (tag, code3[:60], src_code[:60]), case)
            for n, _ in rc.REGION_ORDER:
                if got3[n] != want_regions[n]:
                    res.violation('C03|region|reread-by-name|%s' % n, 'cart %s: %s region differs after write + file.from_file(name)' % (tag, n), case)
            if g3.version != version or (g3.label is None) != (label is None):
                res.violation('C03|version-or-label|reread-by-name', 'version / label presence changed by write + file.from_file(name)', case)
        except Exception as e:
            res.violation('C03|read|raise|%s|by-name|%s' % (type(e).__name__, tag_class(tag)),
                          'file.from_file on the written cart %s raised %r' % (tag, e), case)
    finally:
        shutil.rmtree(dname, ignore_errors=True)
    # (b) picotool reader, chain
    cur = data
    for step in range(chain):
        try:
            g2 = P8.from_file(io.BytesIO(cur), filename='t.p8')
        except Exception as e:
            res.violation('C03|read|raise|%s|%s' % (type(e).__name__, tag_class(tag)),
                          'reading back cart %s raised %r' % (tag, e), case)
            return
        got = carts.game_regions(g2)
        for n, _ in rc.REGION_ORDER:
            if got[n] != want_regions[n]:
                res.violation('C03|region|reread|%s' % n,
                              'cart %s: %s region differs after write+read (step %d)' % (tag, n, step), case)
        if g2.version != version:
            res.violation('C03|version|reread', 'version %r after write+read, was %r' % (g2.version, version), case)
        if (g2.label is None) != (label is None):
            res.violation('C03|label|reread-presence', 'label presence changed by write+read', case)
        elif label is not None and bytes(g2.label.to_bytes()) != bytes(label):
            res.violation('C03|label|reread', 'label pixels changed by write+read', case)
        code2 = b''.join(g2.lua.to_lines())
        if code2 not in expected_code(src_code):
            res.violation('C03|code|reread|%s' % tag_class(tag),
                          'cart %s: code after write+read %r != %r' % (tag, code2[:60], src_code[:60]), case)
        buf = io.BytesIO()
        try:
            P8.to_file(g2, buf, filename='t.p8')
        except Exception as e:
            res.violation('C03|rewrite|raise|%s' % type(e).__name__, 're-writing cart %s raised %r' % (tag, e), case)
            return
        if buf.getvalue() != cur:
            a, b = buf.getvalue(), cur
            i = next((i for i in range(min(len(a), len(b))) if a[i] != b[i]), min(len(a), len(b)))
            res.violation('C03|rewrite|not-identical|%s' % tag_class(tag),
                          'cart %s: second write differs from first at byte %d: %r vs %r' % (
                              tag, i, a[max(0, i - 10):i + 10], b[max(0, i - 10):i + 10]), case)
            return
        cur = buf.getvalue()
    res.outcome((len(data), version, label is None))


def tag_class(tag):
    return tag[0] if isinstance(tag, (list, tuple)) else str(tag)


def write_via(g, via):
    """Real-path writers: file.to_file, or the `p8tool writep8` CLI."""
    from pico8.game import file as p8file
    from pico8 import tool
    d = tempfile.mkdtemp(prefix='c03_')
    try:
        if via == 'file':
            path = os.path.join(d, 'out.p8')
            p8file.to_file(g, path)
            return open(path, 'rb').read()
        if via == 'file-existing':
            path = os.path.join(d, 'out.p8')
            open(path, 'wb').write(b'old contents much longer than nothing\n' * 4000)
            p8file.to_file(g, path)
            return open(path, 'rb').read()
        if via in ('cli', 'cli-debug'):
            src = os.path.join(d, 'in.p8')
            p8file.to_file(g, src)
            from pico8 import util
            old_verb = util._verbosity
            try:
                rcode = tool.main((['--debug'] if via == 'cli-debug' else []) + ['writep8', src])
            finally:
                util.set_verbosity(old_verb)
            if rcode != 0:
                raise RuntimeError('p8tool writep8 returned %r' % rcode)
            return open(os.path.join(d, 'in_fmt.p8'), 'rb').read()
        if via == 'file-debug':
            from pico8 import util
            old_verb = util._verbosity
            util.set_verbosity(util.VERBOSITY_DEBUG)
            try:
                path = os.path.join(d, 'out.p8')
                p8file.to_file(g, path)
                return open(path, 'rb').read()
            finally:
                util.set_verbosity(old_verb)
        raise ValueError(via)
    finally:
        shutil.rmtree(d, ignore_errors=True)


# ---------------------------------------------------------------- families
def region_cart(i, tier):
    mus = carts.music_regions(tier)
    fills = {
        'sfx': carts.sfx_region(i % 256),
        'gfx': carts.gfx_region(i % 2) if i % 5 else carts.pair_region(0x2000, 64),
        'map': carts.rot_region(4096, (i * 2) & 0xff) if i % 7 else carts.pair_region(4096, 64),
        'gff': carts.rot_region(256, (i * 2 + 1) & 0xff),
        'music': mus[i % len(mus)],
    }
    label = None
    if i % 2 == 0:
        label = carts.gfx_region((i // 2) % 2) if i % 4 == 0 else carts.rot_region(0x2000, i)
    return fills, label


VERSIONS = list(range(0, 41)) + [255, 256, 65535]


def LABELS_BLANKISH():
    z = bytes(0x2000)
    return [z, z[:0x1000] + carts.rot_region(0x1000, 5), z[:-1] + b'\x10', b'\x01' + z[1:], z[:64] + carts.rot_region(0x2000 - 64, 1)]


def special_bytes():
    from props import c15
    return c15.special_bytes()


def lua_sources(tier):
    """(tag, source bytes). Excludes sources with a line reading as a section header."""
    out = [('empty', b''), ('nonl', b'x=1'), ('nl', b'x=1\n'), ('crlf', b'x=1\r\ny=2\r\n'), ('blank', b'\n\n\n'),
           ('spaces', b'  \t  '), ('cr', b'x=1\ry=2\n')]
    # every byte value in comment / string / identifier position
    com = []
    for b in range(1, 256):
        if b in (10, 13):
            continue
        # (the text after the byte would change, or not lex, if a reader took the byte for a line end: the apostrophe
        # would open a string, the escape would be re-spelled)
        com.append(b'--' + bytes([b]) + b' it\'s "\\65"|\n')
    out.append(('bytes-in-comment', b''.join(com)))
    st = []
    for b in range(1, 256):
        if b in (10, 13, 34, 92):
            continue
        st.append(b'x="' + bytes([b]) + b'"\n')
    out.append(('bytes-in-string', b''.join(st)))
    st = []
    for b in range(1, 256):
        if b in (93,):
            continue
        st.append(b'x=[[' + bytes([b]) + b'.]]\n')
    out.append(('bytes-in-longstring', b''.join(st)))
    out.append(('bytes-in-ident', b''.join(b'a' + bytes([b]) + b'=' + bytes([b]) + b'\n' for b in range(0x80, 0x100))))
    out.append(('nul-in-comment', b'--a\x00b\n'))
    # one physical line whose .p8 (UTF-8) form is longer than 2^16 bytes although it has far fewer characters
    out.append(('long-glyph-comment', b'x=1\n--' + b'\x9a\x8e\x80' * 8000 + b'\ny=2\n'))
    out.append(('long-glyph-string', b's="' + b'\x8b\x91\x94\x83' * 5000 + b'" t=[[' + b'\xf0' * 23000 + b']]\n'))
    # quoted strings over all ordered pairs of the escape / byte atoms of C06 (what the writer re-spells must read back
    # to the same text): one cart per quote kind
    from props import c06
    for q in (b'"', b"'"):
        lines = []
        for a, _ in c06.ATOMS:
            for b, _ in c06.ATOMS:
                other = b"'" if q == b'"' else b'"'
                line = b's=' + q + (a + b).replace(b'OTHERQ', other) + q + b'\n'
                try:
                    sig = reflex.significant(reflex.lex(line))
                except reflex.Reject:
                    continue
                if [t.kind for t in sig] == ['name', 'symbol', 'string']:
                    lines.append(line)
        out.append(('string-escape-pairs-%s' % ('dq' if q == b'"' else 'sq'), b''.join(lines)))
    # every possible final byte of a source that does not end in "\n" (in a comment, and bare blanks after code)
    for b in range(1, 256):
        if b == 10:
            continue
        out.append(('final-byte-comment-%d' % b, b'x=1\n--c' + bytes([b])))
    for name, tail in (('cr', b'\r'), ('crcr', b'\r\r'), ('tab', b'\t'), ('space', b' '), ('lfcr', b'\n\r'),
                       ('cr-only-lines', b'\ry=2\rz=3\r'), ('crlfcr', b'\r\n\r')):
        out.append(('final-' + name, b'x=1' + tail))
    # lines that contain a section-header-like word but do not READ as a header (a header line is exactly
    # '__name__' + LF): valid Lua that starts with / contains __name__
    for nm in (b'lua', b'gfx', b'label', b'gff', b'map', b'sfx', b'music', b'init', b'x1', b'\x9a', b'g\x89x', b'\x95\xfd'):
        w = b'__' + nm + b'__'
        forms = [w + b'=1\n', w + b'x=2\n', w + b'w,' + w + b'h=128,32\n', b' ' + w + b'=1\n', b'x=' + w + b'\n',
                 b'--' + w + b'\n', b'x=[[\n' + w + b' holds\n]]\n', b'--[[\n' + w + b'.\n]]\n', w + b'()\n',
                 w[:-1] + b'=1\n', w[1:] + b'=1\n']
        for fi, form in enumerate(forms):
            out.append(('near-header-%s-%d' % (nm.decode('latin-1'), fi), b'a=1\n' + form + b'z=3\n'))
        if any(c >= 0x80 for c in nm):
            # between the underscores only glyphs: not an (ASCII) section name, so the line is Lua text - in a long
            # comment and as an identifier statement
            out.append(('glyph-header-like-%s' % nm.decode('latin-1'), b'a=1\n--[[\n' + w + b'\n]]\nz=3\n'))
    return out


def pair_sources(tier, sp):
    """Byte pairs in comments, packed 4096 pairs per cart."""
    firsts = range(256) if tier == 'thorough' else sp
    pairs = [(a, b) for a in firsts for b in range(256)
             if a not in (10, 13, 0) and b not in (10, 13, 0)]
    out = []
    for i in range(0, len(pairs), 4096):
        src = b''.join(b'--' + bytes([a, b]) + b"'\n" for a, b in pairs[i:i + 4096])
        out.append((('pairs', i), src))
    return out


def shards(tier, seed):
    n = 128 if tier == 'quick' else 320
    items = [('regions', tier, lo, min(n, lo + 8)) for lo in range(0, n, 8)]
    items += [('versions', tier, lo, lo + 11) for lo in range(0, len(VERSIONS), 11)]
    items += [('lua', tier, seed, lo) for lo in range(0, len(lua_sources(tier)), 24)]
    sp = special_bytes()
    npairs = len(pair_sources(tier, sp))
    items += [('pairs', tier, i) for i in range(npairs)]
    items += [('via', tier, seed), ('history', tier, seed), ('defaults', tier)]
    items += [('programs', tier, k) for k in range(8)]
    return items


def run_shard(item):
    res = ShardResult()
    kind = item[0]
    if kind == 'regions':
        for i in range(item[2], item[3]):
            fills, label = region_cart(i, item[1])
            roundtrip(fills, label, 8 + (i % 30), b'-- cart %d\nx=%d\n' % (i, i), res, ('regions', i),
                      chain=2 if i % 16 == 0 else 1)
        if item[2] == 0:
            res.sample({'family': 'regions', 'cart': 0, 'sfx_first_bytes': carts.sfx_region(0)[:8],
                        'label': 'gfx_region(0)'})
    elif kind == 'versions':
        fills = carts.region_fills(1, 0)
        for v in VERSIONS[item[2]:item[3]]:
            roundtrip(fills, None if v % 2 else carts.gfx_region(1), v, b'print(%d)\n' % v, res, ('version', v))
        res.sample({'family': 'versions', 'versions': VERSIONS[item[2]:item[3]]})
    elif kind == 'lua':
        fills = carts.region_fills(0, item[2])
        lo = item[3] if len(item) > 3 else 0
        for tag, src in lua_sources(item[1])[lo:lo + 24]:
            for label in ((None,) if tag.startswith('final-byte-comment') else (None, carts.gfx_region(0))):
                roundtrip(fills, label, 33, src, res, ('lua', tag, label is not None), chain=2)
        # labels with blank parts: all black, black top rows, only the last pixel set
        if lo == 0:
            for j, lab in enumerate(LABELS_BLANKISH()):
                roundtrip(fills, lab, 33, b'x=1\n', res, ('label-blankish', j), chain=2)
        res.sample({'family': 'lua', 'source': lua_sources(item[1])[8][1][:40]})
    elif kind == 'pairs':
        sp = special_bytes()
        tag, src = pair_sources(item[1], sp)[item[2]]
        roundtrip({}, None, 33, src, res, tag)
        res.count('byte_pairs_in_comments', src.count(b'\n'))
        if item[2] == 0:
            res.sample({'family': 'pairs', 'source_prefix': src[:24]})
    elif kind == 'via':
        for j, via in enumerate(('file', 'file-existing', 'cli', 'file-debug', 'cli-debug')):
            for i in (1, 2, 6):
                fills, label = region_cart(i, item[1])
                roundtrip(fills, label, 33, b'-- t\n-- a\nfunction f(x) return x*2 end\nprint(f(%d))' % i, res,
                          ('via-' + via, i), via=via)
        res.sample({'family': 'via', 'writers': ['file.to_file', 'file.to_file over existing', 'p8tool writep8']})
    elif kind == 'defaults':
        # rows an editor leaves behind (all-zero rows, PICO-8's never-edited sfx/music rows) alone and among busy rows
        from props import c16
        n = 0
        for sec in ('sfx', 'music', 'gfx', 'map', 'gff'):
            regs = c16.default_regions(sec)
            pick = regs if item[1] == 'thorough' and sec in ('music', 'gff') else (regs[:4] + regs[-2:] + regs[len(regs) // 2:len(regs) // 2 + 2])
            for j, mem in enumerate(pick):
                roundtrip({sec: mem}, None, 33, b'x=1\n', res, ('defaults', sec, regs.index(mem)))
                n += 1
        res.sample({'family': 'defaults', 'carts': n})
    elif kind == 'programs':
        for j, code in enumerate(packed_programs(item[1], item[2], 8)):
            roundtrip({}, None, 33, code, res, ('programs', item[2], j))
        res.sample({'family': 'programs', 'code_prefix': packed_programs(item[1], item[2], 8)[0][:80]})
    elif kind == 'history':
        path_history(res, '.p8')
        edited_history(res, '.p8')
        res.sample({'family': 'history', 'ops': 'write A; read; write B to the same path; read; write A again; read'})
    return res


def packed_programs(tier, k, n, per_cart=60):
    """Generated dialect programs (every statement kind x <= 1 deviation) as Lua sources, packed per cart."""
    from lib import luagen as L
    out, cur = [], []
    for i, tree in enumerate(L.stat_programs(1)):
        if i % n != k:
            continue
        p = L.render(tree)
        if p is None or not p.toks:
            continue
        cur.append(L.assemble(p, {}))
        if len(cur) >= per_cart:
            out.append(b''.join(cur))
            cur = []
    if cur:
        out.append(b''.join(cur))
    return out


def path_history(res, ext):
    """Operation history on one real path: each read must return the cart written last (nothing cached by path)."""
    from pico8.game import file as p8file
    d = tempfile.mkdtemp(prefix='c03h_')
    try:
        path = os.path.join(d, 'same' + ext)
        carts_ = []
        for i in (3, 8, 3, 12):
            fills, label = region_cart(i, 'quick')
            carts_.append((fills, label, 20 + i, b'-- cart %d\nv=%d\n' % (i, i)))
        for step, (fills, label, version, code) in enumerate(carts_):
            res.evaluations += 1
            res.nontriv(('history', ext, step))
            case = {'tag': ['history', ext, step]}
            g = carts.make_game(fills, version=version, code_lines=[code], label=label if ext == '.p8' else None)
            # the one file is named in different ways along the history (absolute, relative to the working directory,
            # through ./ and a sub/.. detour) and, on step 2, replaced by copying another file over it; a second
            # directory holds a different cart under the SAME relative name and is read between the steps
            os.makedirs(os.path.join(d, 'sub'), exist_ok=True)
            os.makedirs(os.path.join(d, 'other'), exist_ok=True)
            spell_w = [path, 'same' + ext, os.path.join(d, 'sub', '..', 'same' + ext), os.path.join('.', 'same' + ext)][step % 4]
            spell_r = ['same' + ext, path, os.path.join('.', 'same' + ext), 'same' + ext][step % 4]
            cwd0 = os.getcwd()
            try:
                os.chdir(d)
                if step == 2:
                    tmpname = os.path.join(d, 'fresh' + ext)
                    p8file.to_file(g, tmpname)
                    shutil.copyfile(tmpname, path)
                    os.unlink(tmpname)
                else:
                    p8file.to_file(g, spell_w)
                g2 = p8file.from_file(spell_r)
                # the other directory's file of the same relative name
                og = carts.make_game({}, version=9, code_lines=[b'-- other dir %d\no=%d\n' % (step, step)])
                os.chdir(os.path.join(d, 'other'))
                p8file.to_file(og, os.path.join(d, 'other', 'same' + ext))
                o2 = p8file.from_file('same' + ext)
                if b''.join(o2.lua.to_lines()).rstrip(b'\n') != b'-- other dir %d\no=%d' % (step, step):
                    res.violation('C03|history|stale|other-directory', 'reading same%s relative to another directory returns the cart of the '
                                  'first directory (or an earlier one)' % ext, case)
                    return
            except Exception as e:
                res.violation('C03|history|raise|%s' % type(e).__name__, 'step %d of write/read history on one path raised %r' % (step, e), case)
                return
            finally:
                os.chdir(cwd0)
            got = carts.game_regions(g2)
            want = {n: bytes(fills[n]) for n in fills}
            want['music'] = carts.mask_music(want['music']) if ext == '.p8' else want['music']
            bad = [n for n in want if got[n] != want[n]]
            code2 = b''.join(g2.lua.to_lines())
            if bad or code2.rstrip(b'\n') != code.rstrip(b'\n') or g2.version != version:
                res.violation('C03|history|stale|step%d' % step,
                              'after writing cart %d over the same path, reading it returns %s of an earlier cart' % (
                                  step, ', '.join(bad) or 'code/version'), case)
                return
            res.outcome(('history', step))
    finally:
        shutil.rmtree(d, ignore_errors=True)


def edited_history(res, ext):
    """A cart LOADED from a file (by name), edited through every route that reaches its memory - the sections' setters,
    Map cells of rows 32..63 (which live in gfx memory), Game.write_cart_data, a poke into the storage to_bytes() hands
    out - then saved and read back: the file holds the cart as it is NOW. One edit kind at a time and all together."""
    from pico8.game import file as p8file
    d = tempfile.mkdtemp(prefix='c03e_')
    try:
        fills, label = region_cart(5, 'quick')
        src = os.path.join(d, 'src' + ext)
        p8file.to_file(carts.make_game(fills, version=33, code_lines=[b'-- e\nv=1\n'], label=label if ext == '.p8' else None), src)
        kinds = ['map-low-cell', 'map-high-cell', 'write_cart_data-gfx', 'write_cart_data-all', 'poke-gfx', 'poke-sfx', 'set_sprite', 'gff-flags',
                 'music-channel', 'all']

        def edit(g, kind):
            if kind in ('map-low-cell', 'all'):
                g.map.set_cell(5, 40, 0x7f)
                g.map.set_cell(127, 63, 0x01)
            if kind in ('map-high-cell', 'all'):
                g.map.set_cell(3, 2, 0x6e)
            if kind in ('write_cart_data-gfx', 'all'):
                g.write_cart_data(bytes((i * 7 + 1) & 0xff for i in range(1020)), 0x0ff0)
            if kind == 'write_cart_data-all':
                g.write_cart_data(bytes((i * 13 + 5) & 0xff if i % 4 != 3 or not (0x3100 <= i < 0x3200) else 0x11 for i in range(0x4300)), 0)
            if kind in ('poke-gfx', 'all'):
                g.gfx.to_bytes()[0x123] = 0xab
                g.gfx.to_bytes()[0x1fff] = 0xcd
            if kind in ('poke-sfx', 'all'):
                g.sfx.to_bytes()[0] = 0x21
                g.sfx.to_bytes()[0x10ff] = 0x07
            if kind in ('set_sprite', 'all'):
                g.gfx.set_sprite(3, [[1, 2, 3, 4, 5, 6, 7, 8]] * 8)
            if kind in ('gff-flags', 'all'):
                g.gff.to_bytes()[9] = 0x81
            if kind in ('music-channel', 'all'):
                g.music.set_channel(2, 1, 33)
        for kind in kinds:
            res.evaluations += 1
            res.nontriv(('edited', ext, kind))
            case = {'tag': ['edited', ext, kind]}
            try:
                g = p8file.from_file(src)
                edit(g, kind)
                want = carts.game_regions(g)
                out = os.path.join(d, 'out_%s%s' % (kind, ext))
                p8file.to_file(g, out)
                g2 = p8file.from_file(out)
            except Exception as e:
                res.violation('C03|edited|raise|%s|%s' % (type(e).__name__, kind), 'load / edit (%s) / save / load raised %r' % (kind, e), case)
                continue
            got = carts.game_regions(g2)
            bad = [n for n in want if (carts.mask_music(got[n]) if n == 'music' else got[n]) != (carts.mask_music(want[n]) if n == 'music' else want[n])]
            if not bad and [g2.map.get_cell(x, y) for x, y in ((5, 40), (127, 63), (3, 2))] != [g.map.get_cell(x, y) for x, y in ((5, 40), (127, 63), (3, 2))]:
                bad = ['map cells']
            if bad:
                res.violation('C03|edited|stale|%s|%s' % (kind, '+'.join(bad)),
                              'a cart loaded from a %s file, edited (%s) and saved again reads back with %s as before the edit / different' % (ext, kind, ', '.join(bad)), case)
            else:
                res.outcome(('edited', kind))
    finally:
        shutil.rmtree(d, ignore_errors=True)


def replay(case):
    res = ShardResult()
    tag = case['tag']
    kind = tag[0]
    tier = 'thorough'
    if kind == 'programs':
        code = packed_programs(tier, tag[1], 8)[tag[2]]
        roundtrip({}, None, 33, code, res, tuple(tag))
        return [(s, v[0]) for s, v in res.violations.items()]
    if kind == 'edited':
        edited_history(res, tag[1])
        return [(s_, v[0]) for s_, v in res.violations.items()]
    if kind == 'history':
        path_history(res, tag[1])
        return [(s, v[0]) for s, v in res.violations.items()]
    if kind == 'regions':
        for t in ('quick', 'thorough'):
            fills, label = region_cart(tag[1], t)
            roundtrip(fills, label, 8 + (tag[1] % 30), b'-- cart %d\nx=%d\n' % (tag[1], tag[1]), res, tuple(tag), chain=2)
    elif kind == 'version':
        v = tag[1]
        roundtrip(carts.region_fills(1, 0), None if v % 2 else carts.gfx_region(1), v, b'print(%d)\n' % v, res, tuple(tag))
    elif kind == 'lua':
        src = dict(lua_sources(tier))[tag[1]]
        roundtrip(carts.region_fills(0, 0), carts.gfx_region(0) if tag[2] else None, 33, src, res, tuple(tag), chain=2)
    elif kind == 'defaults':
        from props import c16
        roundtrip({tag[1]: c16.default_regions(tag[1])[tag[2]]}, None, 33, b'x=1\n', res, tuple(tag))
    elif kind == 'label-blankish':
        roundtrip(carts.region_fills(0, 0), LABELS_BLANKISH()[tag[1]], 33, b'x=1\n', res, tuple(tag), chain=2)
    elif kind == 'pairs':
        sp = special_bytes()
        for t in ('quick', 'thorough'):
            d = dict(pair_sources(t, sp))
            if tuple(tag) in d:
                roundtrip({}, None, 33, d[tuple(tag)], res, tuple(tag))
    elif kind.startswith('via-'):
        fills, label = region_cart(tag[1], tier)
        roundtrip(fills, label, 33, b'-- t\n-- a\nfunction f(x) return x*2 end\nprint(f(%d))' % tag[1], res, tuple(tag),
                  via=kind[4:])
    return [(s, v[0]) for s, v in res.violations.items()]
