"""C08 — the parser consumes every valid program entirely and builds the tree it denotes.

Programs are derivations of the dialect grammar (lib/luagen): every statement kind with <= D deviations from
the default expansion, all ordered pairs of statement kinds with each separator, nested blocks to depth 3, a
witness for every grammar-adjacent pair of terminal classes; each in all layouts with <= 1 deviating gap (every
whitespace/comment/newline separator E1 allows there).  Oracle: parse succeeds, consumes all significant
tokens, and the adapter image of picotool's tree equals the skeleton given by the derivation.
"""
import os
from lib import asttools
from lib import luagen as L
from lib import reflex
from lib import core
from lib.core import ShardResult, h64

LEVEL = 'exploration'
RULE = ('derivation-bounded enumeration of the dialect grammar: (stat) every statement kind x all derivations with <= D '
        'deviations (quick D=1, thorough D=2), operator spellings free; (seq) all ordered pairs of statement kinds x '
        'separators {newline, ;, space}; (nest) block-hosting statements nested to depth 3 around every statement '
        'kind; (pairs) one witness program for every pair in the grammar adjacency relation ADJ; each program in its '
        'default layout, its tightest layout, and (quick: D<=1 programs; thorough: all stat/seq/nest programs of <= 14 '
        'tokens) every layout with one deviating gap over 13 separator kinds; non-trivial = program with >= 4 '
        'significant tokens; distinct = distinct source text')
ASSUMPTIONS = ['ground truth (skeleton, token list, line scopes) comes from the derivation; every generated text is '
               're-lexed with the reference lexer and must give exactly the intended tokens (generator self-check)',
               'dialect exclusions: see DESIGN 2.1 (nested short-ifs, short while, newer operators, ...)',
               'expressions are compared as flat operator/operand sequences (the property does not ask for precedence)']
BOUNDS = {'quick': {'deviations': 1, 'layout_deviations': 1, 'nest_depth': 3},
          'thorough': {'deviations': 2, 'layout_deviations': 1, 'nest_depth': 3}}

NSHARD = {'quick': 32, 'thorough': 96}


def lua_mod():
    from pico8.lua import lua
    return lua


# ---------------------------------------------------------------- program families (deterministic enumeration)
def fam_stat(D):
    for tree in L.stat_programs(D):
        yield tree


HOSTS = ['do', 'while', 'repeat', 'if', 'fornum', 'forin', 'function', 'localfunction']


def host_with_block(label, blk):
    st = L.default_stat(label)
    nt, pi, kids = st
    syms = L.G['stat'][pi][1]
    kids = list(kids)
    if label in ('function', 'localfunction'):
        fb_i = [i for i, s in enumerate(syms) if s == 'funcbody'][0]
        fb = list(kids[fb_i][2])
        fb[3] = blk
        kids[fb_i] = ('funcbody', 0, fb)
    else:
        bi = [i for i, s in enumerate(syms) if s == 'block'][0]
        kids[bi] = blk
    return ('stat', pi, kids)


def shortif_else_stat():
    """if ( a ) b = c else d = e   (line-scoped, with an else part)"""
    pi = [i for i, (l, _) in enumerate(L.G['stat']) if l == 'shortif'][0]
    syms = L.G['stat'][pi][1]
    kids = [L.min_tree(x) for x in syms]
    sl = L.min_tree('slstats')
    kids[5] = ('slelse', 1, [L.T('else'), sl])
    return ('stat', pi, kids)


def shortif_qprint_stat(with_else=False):
    """if ( a ) ? b      /   if ( a ) c = d else ? b"""
    pi = [i for i, (l, _) in enumerate(L.G['stat']) if l == 'shortif'][0]
    syms = L.G['stat'][pi][1]
    kids = [L.min_tree(x) for x in syms]
    qi = [i for i, (l, _) in enumerate(L.G['slstat']) if l == 'qprint'][0]
    qp = ('slstat', qi, [L.T('?'), L.min_tree('explist')])
    sl_q = ('slstats', 0, [qp])
    if with_else:
        kids[5] = ('slelse', 1, [L.T('else'), sl_q])
    else:
        kids[4] = sl_q
    return ('stat', pi, kids)


def block_of(stats, last=None):
    return L.wrap_stats(stats, last=last)[2][0]


def fam_seq():
    labels = L.STAT_LABELS
    for a in labels:
        for b in labels + ['return', 'break']:
            for semi in (False, True):
                sa = L.default_stat(a)
                if b in ('return', 'break'):
                    li = 0 if b == 'return' else 1
                    last = ('laststat', li, [L.min_tree(s) for s in L.G['laststat'][li][1]])
                    yield L.wrap_stats([sa], semis=[semi], last=last)
                    # break needs a loop: host it
                    yield L.wrap_stats([host_with_block('while', block_of([sa], last=last))])
                else:
                    yield L.wrap_stats([sa, L.default_stat(b)], semis=[semi, False])
                    yield L.wrap_stats([sa, L.default_stat(b)], semis=[semi, True])


def fam_nest():
    for h1 in HOSTS:
        for inner in L.STAT_LABELS:
            # inner statement alone, followed by another statement, and nested two more levels
            st = L.default_stat(inner)
            yield L.wrap_stats([host_with_block(h1, block_of([st]))])
            yield L.wrap_stats([host_with_block(h1, block_of([st, L.default_stat('assign')])), L.default_stat('callstat')])
            for h2 in HOSTS:
                yield L.wrap_stats([host_with_block(h1, block_of([host_with_block(h2, block_of([st]))]))])
        for h2 in HOSTS:
            for h3 in HOSTS:
                st = L.default_stat('shortif')
                yield L.wrap_stats([host_with_block(h1, block_of([host_with_block(h2, block_of(
                    [host_with_block(h3, block_of([st, L.default_stat('assign')]))]))]))])
    # short-if with an else part (and a ? print) followed by more statements, inside every host and two deep
    sie = shortif_else_stat()
    for h1 in HOSTS:
        yield L.wrap_stats([host_with_block(h1, block_of([sie, L.default_stat('assign')])), L.default_stat('callstat')])
        yield L.wrap_stats([host_with_block(h1, block_of([L.default_stat('qprint'), L.default_stat('assign')])),
                            L.default_stat('callstat')])
        for h2 in HOSTS:
            yield L.wrap_stats([host_with_block(h1, block_of([host_with_block(h2, block_of([sie, sie, L.default_stat('assign')])),
                                                              L.default_stat('assign')]))])
    yield L.wrap_stats([sie, L.default_stat('do'), sie, L.default_stat('assign')])
    # a ? print inside a short-if line (then part / else part), followed by more statements
    for siq in (shortif_qprint_stat(False), shortif_qprint_stat(True)):
        yield L.wrap_stats([siq, L.default_stat('assign'), L.default_stat('callstat')])
        yield L.wrap_stats([siq, siq, L.default_stat('local')])
        for h1 in HOSTS:
            yield L.wrap_stats([host_with_block(h1, block_of([siq, L.default_stat('assign'), L.default_stat('callstat')])),
                                L.default_stat('assign')])
    # if / elseif / else chains hosting line-scoped statements
    ifp = [pi for pi, (l, _) in enumerate(L.G['stat']) if l == 'if'][0]
    for inner in ('shortif', 'qprint', 'assign', 'callstat'):
        st = L.default_stat(inner)
        blk = block_of([st])
        elifs = ('elifs', 1, [L.T('elseif'), L.min_tree('exp'), L.T('then'), blk, ('elifs', 0, [])])
        els = ('else_opt', 1, [L.T('else'), blk])
        yield L.wrap_stats([('stat', ifp, [L.T('if'), L.min_tree('exp'), L.T('then'), blk, elifs, els, L.T('end')])])


CHAIN_OPS = ['field', 'index', 'call0', 'call1', 'calltbl', 'callstr', 'method0', 'methodstr']


def _pi(nt, label, nth=0):
    return [i for i, (l, _) in enumerate(L.G[nt]) if l == label][nth]


def chain_tree(base, ops):
    """prefixexp derivation for base followed by a chain of suffix operations. Returns (tree, ends_in)."""
    name = L.min_tree('Name')
    if base == 'name':
        cur = ('prefixexp', _pi('prefixexp', 'p_var'), [('var', _pi('var', 'v_name'), [name])])
        ends = 'var'
    else:
        # base = 'paren' or 'paren:<exp production label>': every kind of expression inside the parentheses
        inner = L.min_tree('exp')
        if ':' in base:
            lab = base.split(':')[1]
            pi = _pi('exp', lab)
            inner = ('exp', pi, [L.min_tree(x) for x in L.G['exp'][pi][1]])
        cur = ('prefixexp', _pi('prefixexp', 'p_paren'), [L.T('('), inner, L.T(')')])
        ends = 'paren'
    args = {
        'call0': ('args', _pi('args', 'a_empty'), [L.T('('), L.T(')')]),
        'call1': ('args', _pi('args', 'a_list'), [L.T('('), L.min_tree('explist'), L.T(')')]),
        'calltbl': ('args', _pi('args', 'a_table'), [L.min_tree('table')]),
        'callstr': ('args', _pi('args', 'a_string'), [L.min_tree('String')]),
    }
    for op in ops:
        if op == 'field':
            v = ('var', _pi('var', 'v_field'), [cur, L.T('.'), name])
            cur = ('prefixexp', _pi('prefixexp', 'p_var'), [v])
            ends = 'var'
        elif op == 'index':
            v = ('var', _pi('var', 'v_index'), [cur, L.T('['), L.min_tree('exp'), L.T(']')])
            cur = ('prefixexp', _pi('prefixexp', 'p_var'), [v])
            ends = 'var'
        elif op.startswith('call'):
            c = ('call', _pi('call', 'c_call'), [cur, args[op]])
            cur = ('prefixexp', _pi('prefixexp', 'p_call'), [c])
            ends = 'call'
        else:
            a = args['call0'] if op == 'method0' else args['callstr']
            c = ('call', _pi('call', 'c_method'), [cur, L.T(':'), name, a])
            cur = ('prefixexp', _pi('prefixexp', 'p_call'), [c])
            ends = 'call'
    return cur, ends


def fam_chain(maxlen=3):
    """Every prefix chain of <= maxlen suffix operations on a name / a parenthesised expression, as assignment target,
    call statement, assigned value, inside a block and as a short-if body."""
    import itertools
    assign_pi = _pi('stat', 'assign')
    call_pi = _pi('stat', 'callstat')
    bases = ['name', 'paren'] + ['paren:' + l for l, _ in L.G['exp'] if l != 'e_nil']
    for base in bases:
        for n in range(1, (maxlen if base in ('name', 'paren') else min(maxlen, 2)) + 1):
            for ops in itertools.product(CHAIN_OPS, repeat=n):
                tree, ends = chain_tree(base, ops)
                stats = []
                # as a value:  a = <chain>
                val = ('exp', _pi('exp', 'e_prefix'), [tree])
                stats.append(('stat', assign_pi, [L.min_tree('varlist'), L.min_tree('assignop'),
                                                  ('explist', _pi('explist', 'el_one'), [val])]))
                if ends == 'var':
                    var = tree[2][0]
                    stats.append(('stat', assign_pi, [('varlist', _pi('varlist', 'vl_one'), [var]), L.min_tree('assignop'),
                                                      L.min_tree('explist')]))
                elif ends == 'call':
                    stats.append(('stat', call_pi, [tree[2][0]]))
                for st in stats:
                    if base != 'name' and (st[1] != assign_pi or st is not stats[0]):
                        # a statement starting with '(' : only first in its block
                        yield L.wrap_stats([st])
                        yield L.wrap_stats([host_with_block('function', block_of([st]))])
                        continue
                    yield L.wrap_stats([st, L.default_stat('assign')])
                    yield L.wrap_stats([host_with_block('do', block_of([st, L.default_stat('local')]))])


LOCAL_BOUNDS = {
    # nonterminal: (quick local deviations, thorough local deviations)
    'funcname': (3, 4), 'parlist': (3, 3), 'funcbody': (2, 2), 'args': (3, 3), 'table': (3, 3), 'varlist': (3, 3),
    'var': (3, 3), 'namelist': (3, 4), 'elifs': (3, 3), 'call': (2, 3), 'prefixexp': (3, 3), 'laststat': (2, 3),
    'exp': (2, 2), 'explist': (1, 2), 'slstats': (1, 1), 'else_opt': (2, 2), 'step_opt': (2, 2), 'localinit': (2, 2),
    'retvals': (2, 2), 'field': (2, 2), 'slelse': (1, 1),
}


def fam_local(tier):
    """Local depth: for every syntactic category all its derivations with <= k deviations *inside it* (k from
    LOCAL_BOUNDS), each placed in the smallest compile-valid program context. Yields rendered Programs."""
    seen = set()
    for nt, (kq, kt) in LOCAL_BOUNDS.items():
        k = kq if tier == 'quick' else kt
        for tree, used in L.gen(nt, k):
            if used < 2:
                continue        # <= 1 deviation is the 'stat' family's business
            prog = None
            for cand in L.embed_variants(nt, tree):
                prog = L.render(cand)
                if prog is not None:
                    break
            if prog is None or not prog.toks:
                continue
            key = b' '.join(prog.spellings())
            if key in seen:
                continue
            seen.add(key)
            yield prog


def all_pairs():
    nullable, first, last, adj = L.analysis()
    return sorted(adj)


def programs(tier, family, k, n):
    """Yields Program objects of one family for shard k of n (round-robin by enumeration index)."""
    D = BOUNDS[tier]['deviations']
    if family == 'stat':
        src = fam_stat(D)
    elif family == 'seq':
        src = fam_seq()
    elif family == 'nest':
        src = fam_nest()
    elif family == 'chain':
        src = fam_chain(3 if tier == 'thorough' else 2)
    elif family == 'local':
        for i, prog in enumerate(fam_local(tier)):
            if i % n == k:
                yield prog
        return
    elif family == 'pairs':
        for i, pair in enumerate(all_pairs()):
            if i % n != k:
                continue
            ws = L.pair_witnesses(pair[0], pair[1], limit=1)
            for w in ws:
                w.pair = pair
                yield w
            if not ws:
                yield ('nowitness', pair)
        return
    else:
        raise ValueError(family)
    for i, tree in enumerate(src):
        if i % n != k:
            continue
        p = L.render(tree)
        if p is not None and p.toks:
            yield p


def sources_for(prog, tier, family):
    """(src, layout description) variants of one program."""
    n = len(prog.toks)
    seen = set()
    out = []

    def add(src, desc):
        if src not in seen:
            seen.add(src)
            out.append((src, desc))
    add(L.assemble(prog, {}), 'default')
    add(L.tight_layout(prog)[0], 'tight')
    # one statement per line; every token on its own line (LF and CRLF), wherever a line end is allowed
    lines = L.canonical_lines(prog)
    add(b''.join(L.line_text(prog, idxs) + b'\n' for idxs in lines), 'lines')
    for nl, nm in ((b'\n', 'token-per-line'), (b'\r\n ', 'token-per-line-crlf-indented')):
        seps = {}
        for g in range(1, n):
            if g not in prog.no_nl and L.gap_ok(prog.toks[g - 1].text, nl, prog.toks[g].text):
                seps[g] = nl
        add(L.assemble(prog, seps), nm)
    limit = 14 if (tier == 'thorough' or family != 'stat') else 12
    if family == 'pairs':
        # every separator in the gap between the two terminals of the pair
        a, b = prog.pair
        for g in range(1, n):
            if prog.toks[g - 1].cls == a and prog.toks[g].cls == b or (b == 'NL' and prog.toks[g - 1].cls == a) or \
                    (a == 'NL' and prog.toks[g].cls == b):
                for sep in L.legal_seps(prog, g):
                    add(L.assemble(prog, {g: sep}), 'pair-gap')
    elif n <= limit and (family not in ('chain', 'local') or (tier == 'thorough' and family == 'chain')):
        for src, seps in L.layouts(prog, 1):
            add(src, 'dev1')
    # no final newline
    d = L.assemble(prog, {n: b''})
    add(d, 'no-final-newline')
    return out


# ---------------------------------------------------------------- the oracle
def has_qprint(sk):
    if isinstance(sk, (tuple, list)):
        if sk and sk[0] == 'qprint':
            return True
        return any(has_qprint(x) for x in sk)
    return False


def check_program(prog, src, res, desc, family):
    lua = lua_mod()
    res.evaluations += 1
    case = {'src': src, 'family': family}
    if not L.validate_source(prog, src):
        res.violation('HARNESS-ERROR', 'generator self-check failed for %r (%s)' % (src, desc), case)
        return
    if len(prog.toks) >= 4:
        res.nontriv(src)
    qp = False      # ('?' print statements are ordinary statements since the parser learnt them)
    chunks = [src]
    if desc in ('lines', 'token-per-line'):
        # the .p8 path: the same text arriving one line per chunk
        parts = src.split(b'\n')
        chunks = [p_ + b'\n' for p_ in parts[:-1]] + ([parts[-1]] if parts[-1] else [])
    try:
        obj = lua.Lua.from_lines(chunks, version=core.lua_version(src))
    except Exception as e:
        if qp:
            res.violation('C08|qprint|parse-raise', 'valid program %r with a ? print statement: %s: %s' % (
                src, type(e).__name__, e), case)
            return
        res.violation('C08|parse-raise|%s|%s' % (type(e).__name__, culprit(prog, src, e)),
                      'valid program %r: %s: %s' % (src, type(e).__name__, e), case)
        return
    toks = obj.tokens
    root = obj.root
    from pico8.lua import lexer
    rest = [t for t in toks[root.end_pos:] if not isinstance(t, (lexer.TokSpace, lexer.TokNewline, lexer.TokComment))]
    if rest:
        if qp:
            res.violation('C08|qprint|not-consumed', '%r: parser stops before %r (? print statements are not parsed)' % (
                src, rest[0]._data), case)
        else:
            res.violation('C08|not-consumed|%s' % stat_kinds(prog), '%r: parser stops before token %r; %d significant '
                          'tokens left unparsed' % (src, rest[0]._data, len(rest)), case)
        return
    try:
        got = asttools.chunk(root)
    except asttools.AdaptError as e:
        res.violation('C08|tree-shape|%s' % stat_kinds(prog), '%r: unexpected node in tree: %s' % (src, e), case)
        return
    d = asttools.first_difference(prog.skeleton, got)
    if d and qp:
        res.violation('C08|qprint|tree-differs', '%r: the ? print statement is parsed as something else (%s)' % (
            src, short(d[2])), case)
        return
    if d:
        path, a, b = d
        res.violation('C08|tree-differs|%s|%s' % (stat_kinds(prog), path_class(path)),
                      '%r: tree differs at %s: program denotes %r, parser built %r' % (src, path, short(a), short(b)), case)
        return
    res.outcome((stat_kinds(prog), desc))


def short(x):
    s = repr(x)
    return s if len(s) < 160 else s[:160] + '...'


def path_class(path):
    import re
    return re.sub(r'\d+', 'N', path)[-60:]


def stat_kinds(prog):
    """Kinds of the top-level statements (signature detail)."""
    ks = [s[0] + ('-short' if s[0] == 'if' and s[3] else '') for s in prog.skeleton[1]]
    return '+'.join(ks[:3])


def culprit(prog, src, e):
    return stat_kinds(prog)


# ---------------------------------------------------------------- sharding (shared with C06/C09/C01...)
FAMILIES = ['stat', 'seq', 'nest', 'chain', 'local', 'pairs']


def program_shards(tier, seed, tag='c08'):
    n = NSHARD[tier]
    items = []
    for fam in FAMILIES:
        nn = n if fam in ('stat', 'pairs', 'local') else max(4, n // 4)
        for k in range(nn):
            items.append(('programs', tag, tier, fam, k, nn))
    return items


def programs_for_shard(item):
    """(src, meta) pairs for another property's shard over the same program space."""
    _, tag, tier, fam, k, n = item
    for prog in programs(tier, fam, k, n):
        if isinstance(prog, tuple):
            continue
        for src, desc in sources_for(prog, tier, fam):
            yield src, {'prog': prog, 'desc': desc, 'family': fam}


REUSE_FIRSTS = [[], [b''], [b'-- c\n'], [b'\n'], [b'  \n'], [b'x=1\n'], [b'--[[a\nb]]\n'], [b'do end\n'],
                # line-scoped statements in the first feed (whatever the parser remembers about line ends is then old)
                [b'if (a) b=1\n'], [b'?1\n'], [b'if (a) b=1 else c=2\n', b'x=2\n'], [b'x=1\n', b'?x,y\n', b'\n', b'if (q) return\n']]
REUSE_PREFIXES = [b'', b'-- t\n', b'\n', b' ', b'\t', b'--[[c]]', b'// s\n\n']


def check_reuse(tier, k, n, res):
    """One Lua object fed twice (Lua.from_lines(A), then update_from_lines(B)): tokens and tree must be those of a
    fresh object fed A+B at once, for every kind of first feed (nothing, comments only, blank lines, code) and
    every kind of start of B (code, comment, blank line, blanks)."""
    lua = lua_mod()
    from lib import asttools
    import itertools
    # second feeds: single statements, and ordered pairs of statements (a line-scoped statement followed by more code)
    for prog in itertools.chain(programs(tier, 'stat', k, n), programs(tier, 'seq', k, n)):
        if isinstance(prog, tuple) or len(prog.toks) > 14:
            continue
        body = L.assemble(prog, {})
        for fi, first in enumerate(REUSE_FIRSTS):
            for pi, pre in enumerate(REUSE_PREFIXES):
                second = pre + body
                res.evaluations += 1
                case = {'reuse': [list(first), second]}
                try:
                    fresh = lua.Lua.from_lines(list(first) + [second], version=8)
                except Exception:
                    res.count('fresh_parse_raises')      # the main families decide validity
                    continue
                try:
                    obj = lua.Lua.from_lines(list(first), version=8)
                    obj.update_from_lines([second])
                except Exception as e:
                    res.violation('C08|reuse|raise|%s|first=%d' % (type(e).__name__, fi),
                                  'Lua.from_lines(%r) then update_from_lines(%r) raised %r; fed at once it parses' % (
                                      first, second, e), case)
                    continue
                res.nontriv((fi, pi, body))
                t1 = [(type(t).__name__, t._data) for t in fresh.tokens]
                t2 = [(type(t).__name__, t._data) for t in obj.tokens]
                if t1 != t2:
                    res.violation('C08|reuse|tokens|first=%d' % fi,
                                  'Lua.from_lines(%r) then update_from_lines(%r): token list differs from feeding both at once' % (
                                      first, second), case)
                    continue
                try:
                    s1, s2 = asttools.chunk(fresh.root), asttools.chunk(obj.root)
                except Exception as e:
                    res.violation('C08|reuse|tree-unreadable|%s' % type(e).__name__, 'tree of the re-fed object: %r' % e, case)
                    continue
                if s1 != s2 or fresh.root.end_pos != obj.root.end_pos:
                    res.violation('C08|reuse|tree|first=%d|start=%d' % (fi, pi),
                                  'Lua.from_lines(%r) then update_from_lines(%r): tree has %d statements and ends at token %d; '
                                  'fed at once: %d statements, ends at token %d' % (
                                      first, second, len(s2[1]), obj.root.end_pos, len(s1[1]), fresh.root.end_pos), case)
                    continue
                res.outcome(('reuse', fi, pi))


LABEL_PROGRAMS = [
    b'for i=1,2 do goto c ::c:: end for j=1,2 do goto c ::c:: end\n',
    b'for i=1,2 do\n if (i) goto continue\n x=1\n ::continue::\nend\nwhile a do\n goto continue\n ::continue::\nend\n',
    b'if a then ::x:: b=1 else ::x:: b=2 end\n',
    b'if a then ::x:: elseif b then ::x:: else ::x:: end\n',
    b'do ::l:: end do ::l:: end do ::l:: end\n',
    b'function f() ::l:: goto l end ::l:: goto l\n',
    b'function f() ::l:: end function g() ::l:: end local function h() ::l:: end\n',
    b'while a do ::top:: break end repeat ::top:: until b\n',
    b'::a:: do ::b:: end ::c:: do ::b:: end\n',
    b'x=function() ::l:: end y=function() ::l:: end\n',
    b'for k,v in pairs(t) do ::n:: end for k,v in pairs(t) do ::n:: end\n',
    b'do do ::deep:: end end do do ::deep:: end end\n',
]


def check_label_programs(res):
    """The same label name in blocks that cannot see each other (sibling blocks, branches of one if, different
    functions) is valid Lua 5.2: the program parses to its end and the tree holds every label and goto."""
    lua = lua_mod()
    from pico8.lua import parser
    for src in LABEL_PROGRAMS:
        res.evaluations += 1
        res.nontriv(('labels', src))
        case = {'labels': True, 'src': src}
        try:
            obj = lua.Lua.from_lines([src], version=core.lua_version(src))
        except Exception as e:
            res.violation('C08|labels|parse-raise|%s' % type(e).__name__, 'valid program %r (a label name used again in a block that '
                          'cannot see the first): %s' % (src, e), case)
            continue
        sig = [t for t in obj.tokens if type(t).__name__ not in ('TokSpace', 'TokNewline', 'TokComment')]
        rest = obj.tokens[obj.root.end_pos:]
        if any(type(t).__name__ not in ('TokSpace', 'TokNewline', 'TokComment') for t in rest):
            res.violation('C08|labels|not-consumed', '%r: parser stopped at token %d of %d' % (src, obj.root.end_pos, len(obj.tokens)), case)
            continue
        count = {'StatLabel': 0, 'StatGoto': 0}

        def walk(n):
            if isinstance(n, parser.Node):
                if type(n).__name__ in count:
                    count[type(n).__name__] += 1
                for f in n._fields:
                    walk(getattr(n, f))
            elif isinstance(n, (list, tuple)):
                for x in n:
                    walk(x)
        walk(obj.root)
        want = {'StatLabel': sum(1 for t in sig if type(t).__name__ == 'TokLabel'),
                'StatGoto': sum(1 for t in sig if t._data == b'goto')}
        if count != want:
            res.violation('C08|labels|tree', '%r: tree has %r, the program has %r' % (src, count, want), case)
            continue
        echo = b''.join(obj.to_lines(writer_cls=lua.LuaASTEchoWriter))
        if echo != src:
            res.violation('C08|labels|tree-echo', '%r: walking the tree gives %r' % (src, echo), case)
            continue
        res.outcome(('labels',))


BAD_PROGRAMS = [b'if (a) b=\n', b'if (a) foo(1,\n', b'if (a) b=1 else c=\n', b'?1,\n', b'do x=\n', b'function f(\n', b'x=(1\n',
                b'if a then b=1\n', b'x={1,\n', b'if (a) ?\nend\n', b'for i=1 do end\n', b'repeat x=1\n']


def check_parser_reuse(tier, k, n, res):
    """One parser.Parser object given several token lists in turn (process_tokens is documented as re-usable from
    one thread): what it builds for a program may not depend on what it was given before - other programs, or
    programs it rejected (a ParserError raised anywhere, inside a short-if or `?` line included)."""
    import itertools
    from lib import asttools
    from pico8.lua import lexer, parser
    def lex(src):
        lx = lexer.Lexer(version=8)
        lx.process_lines([src])
        return lx.tokens
    bads = [lex(b) for b in BAD_PROGRAMS]
    goods = []
    for prog in itertools.chain(programs(tier, 'stat', k, n), programs(tier, 'seq', k, n)):
        if isinstance(prog, tuple) or len(prog.toks) > 14:
            continue
        goods.append(L.assemble(prog, {}))
    prev_good = b'if (a) b=1\nx=2\n?x\n'
    for gi, src in enumerate(goods):
        toks = lex(src)
        fresh = parser.Parser(version=8)
        try:
            fresh.process_tokens(toks)
            want = (asttools.chunk(fresh.root), fresh.root.end_pos)
        except Exception:
            continue            # the main families judge whether it parses at all
        for hi, hist in enumerate(([bads[gi % len(bads)]], [bads[(gi + 5) % len(bads)], bads[(gi + 1) % len(bads)]],
                                   [lex(prev_good), bads[(gi + 2) % len(bads)]], [lex(prev_good)])):
            res.evaluations += 1
            p = parser.Parser(version=8)
            for h in hist:
                try:
                    p.process_tokens(h)
                except Exception:
                    pass
            case = {'parser_reuse': [b''.join(t.code for t in h) for h in hist], 'src': src}
            try:
                p.process_tokens(toks)
                got = (asttools.chunk(p.root), p.root.end_pos)
            except Exception as e:
                res.violation('C08|parser-reuse|raise|%s|hist=%d' % (type(e).__name__, hi),
                              'a Parser that was first given %r rejects the valid program %r: %s' % (case['parser_reuse'], src, e), case)
                continue
            if got != want:
                res.violation('C08|parser-reuse|tree|hist=%d' % hi,
                              'a Parser that was first given %r builds another tree for %r than a fresh Parser (ends at token %d, '
                              'fresh: %d)' % (case['parser_reuse'], src, got[1], want[1]), case)
                continue
            res.nontriv(('parser-reuse', hi, src))
        res.outcome(('parser-reuse',))


def _print_tree(value, indent=0, prefix='', out=None):
    """The documented shape of `p8tool printast`: one line per node (class name), its fields below it in field order,
    two more columns of indentation per level, '* field: ' / '- ' prefixes, '[list:]' for sequences, str() for leaves."""
    parser = __import__('pico8.lua.parser', fromlist=['parser'])
    out = [] if out is None else out
    if isinstance(value, parser.Node):
        out.append('%s%s%s\n' % (' ' * indent, prefix, type(value).__name__))
        for f in value._fields:
            _print_tree(getattr(value, f), indent + 2, '* %s: ' % f, out)
    elif isinstance(value, (list, tuple)):
        out.append('%s%s[list:]\n' % (' ' * indent, prefix))
        for item in value:
            _print_tree(item, indent + 2, '- ', out)
    else:
        out.append('%s%s%s\n' % (' ' * indent, prefix, value))
    return out


def check_printast_cli(tier, k, n, res):
    """`p8tool printast` prints the tree the library exposes (whose shape the other families judge): every node,
    field and leaf of `from_file(cart).lua.root`, in order."""
    import shutil
    import tempfile
    from lib import cli
    from props import c07
    from pico8.game import file as p8file
    d = tempfile.mkdtemp(prefix='c08ast_')
    try:
        i = 0
        for prog in programs(tier, 'stat', k, n):
            if isinstance(prog, tuple):
                continue
            i += 1
            if tier == 'quick' and i % 3:
                continue
            src = L.assemble(prog, {})
            if not src.endswith(b'\n') or not c07._cart_ok(src):
                continue
            pth = os.path.join(d, 'a%05d.p8' % i)
            c07.write_p8(pth, src)
            res.evaluations += 1
            case = {'src': src, 'cli': 'printast', 'family': 'stat'}
            try:
                want = ''.join(_print_tree(p8file.from_file(pth).lua.root))
            except Exception:
                res.count('printast_cart_not_loaded')
                continue
            rcode, text = cli.run(['printast', pth])
            res.nontriv(('printast', src))
            if rcode != 0 or text != want:
                j = next((x for x in range(min(len(text), len(want))) if text[x] != want[x]), min(len(text), len(want)))
                res.violation('C08|printast-cli|%s' % ('returncode' if rcode != 0 else 'listing'),
                              '`p8tool printast` on a cart holding %r %s' % (
                                  src, ('returned %r' % (rcode,)) if rcode != 0 else
                                  'prints ...%r where the library tree has ...%r' % (text[max(0, j - 40):j + 40], want[max(0, j - 40):j + 40])),
                              case)
            else:
                res.outcome(('printast', want.count('\n') > 20))
    finally:
        shutil.rmtree(d, ignore_errors=True)


FLAT_UNITS = [b'f()', b'do return end', b'if (a) return', b't={}', b't={1,2,3,}', b't={a=1;}', b'x=f()', b'a:b()', b'f(g())',
              b'function f() end', b'x=function() end', b'for i=1,2 do end', b'for k in f() do end', b'while a do end',
              b'repeat until a', b'if a then end', b'if a then elseif b then else end', b'local x', b'local function f() end',
              b'while a do break end', b'x=1', b'x,y=1,2', b'x+=1', b'if (a) b=1', b'if (a) b() else c()', b'?1', b'x=a and b or c',
              b'x=-1', b'x=#t', b'x=not a', b'x=(1)', b'x=t[1]', b'x=t.a.b', b'x="s"', b'f"s"', b'f{}', b'x=a..b', b'x=a^b^c',
              b'do end', b'function a.b:c(...) return ... end', b'x=t[f()]', b'x={f()}', b'x={{},{}}', b'return']
FLAT_COUNTS = {'quick': [70, 260, 1100], 'thorough': [70, 130, 260, 520, 1100, 4200]}


def check_flat(tier, res):
    """Long FLAT programs: a statement repeated N times (one per line; `return` as the body of N functions). Whether a
    program parses depends on its nesting, never on its length: it parses to its end, the root block holds N statements,
    and walking the tree gives the text back."""
    lua = lua_mod()
    for unit in FLAT_UNITS:
        for n in FLAT_COUNTS[tier]:
            for sep in (b'\n', b' '):
                if sep == b' ' and (unit.startswith(b'if (') or unit.startswith(b'?')):
                    continue
                one = (b'function g() return end' if unit == b'return' else unit) + sep
                src = one * n + (b'' if sep == b'\n' else b'\n')
                res.evaluations += 1
                res.nontriv(('flat', unit, n, sep))
                case = {'flat': True, 'unit': unit, 'n': n, 'sep': sep}
                try:
                    obj = lua.Lua.from_lines([src], version=8)
                except Exception as e:
                    res.violation('C08|flat|parse-raise|%s' % type(e).__name__,
                                  '%d x %r (a valid flat program, nesting depth <= 2): %s' % (n, one, str(e)[:150]), case)
                    continue
                if len(obj.root.stats) != n:
                    res.violation('C08|flat|statement-count', '%d x %r: the root block holds %d statements' % (n, one, len(obj.root.stats)), case)
                    continue
                if any(type(t).__name__ not in ('TokSpace', 'TokNewline', 'TokComment') for t in obj.tokens[obj.root.end_pos:]):
                    res.violation('C08|flat|not-consumed', '%d x %r: parser stopped at token %d of %d' % (n, one, obj.root.end_pos, len(obj.tokens)), case)
                    continue
                echo = b''.join(obj.to_lines(writer_cls=lua.LuaASTEchoWriter))
                if echo != src:
                    res.violation('C08|flat|tree-echo', '%d x %r: walking the tree does not give the text back' % (n, one), case)
                    continue
                res.outcome(('flat', unit))


def shards(tier, seed):
    nr = 8 if tier == 'quick' else 16
    return (program_shards(tier, seed) + [('reuse', 'c08', tier, 'stat', k, nr) for k in range(nr)] +
            [('printast', 'c08', tier, 'stat', k, nr) for k in range(nr)])


def run_shard(item):
    res = ShardResult()
    if item[0] == 'printast':
        check_printast_cli(item[2], item[4], item[5], res)
        res.sample({'family': 'printast-cli', 'src': b'a = b\n'})
        return res
    if item[0] == 'reuse':
        if item[4] == 0:
            check_label_programs(res)
        if item[4] == 1:
            check_flat(item[2], res)
        check_parser_reuse(item[2], item[4], item[5], res)
        check_reuse(item[2], item[4], item[5], res)
        res.sample({'family': 'reuse', 'first': [b'-- c\n'], 'second': b'-- t\nx=1\n'})
        return res
    _, tag, tier, fam, k, n = item
    seen = set()
    for prog in programs(tier, fam, k, n):
        if isinstance(prog, tuple):
            res.count('adj_pairs_without_valid_witness')
            res.cover('unwitnessed_pairs', prog[1])
            continue
        if fam == 'pairs':
            res.cover('adj_pairs_witnessed', prog.pair)
        res.states += 0
        for src, desc in sources_for(prog, tier, fam):
            hk = h64(src)
            if hk in seen:
                continue
            seen.add(hk)
            check_program(prog, src, res, desc, fam)
            res.count('layout_' + desc)
        for t1, t2 in zip(prog.toks, prog.toks[1:]):
            res.cover('adjacent_class_pairs_seen', (t1.cls, t2.cls))
        if k == 0 and len(res.samples) < 2:
            res.sample({'family': fam, 'src': L.assemble(prog, {})})
    return res


def replay(case):
    """Re-parse the recorded source; ground truth is re-derived by finding the program in its family."""
    res = ShardResult()
    if 'labels' in case:
        check_label_programs(res)
        return [(s, v[0]) for s, v in res.violations.items()]
    if 'flat' in case:
        check_flat('quick', res)
        return [(s, v[0]) for s, v in res.violations.items()]
    if 'parser_reuse' in case:
        for k in range(8):
            check_parser_reuse('quick', k, 8, res)
        return [(s, v[0]) for s, v in res.violations.items()]
    if 'reuse' in case:
        for k in range(8):
            check_reuse('quick', k, 8, res)
        return [(s, v[0]) for s, v in res.violations.items()]
    if case.get('cli') == 'printast':
        for k in range(8):
            check_printast_cli('thorough', k, 8, res)
        return [(s, v[0]) for s, v in res.violations.items() if v[1].get('src') == case['src'] or True]
    src = case['src']
    fam = case.get('family', 'stat')
    for tier in ('quick', 'thorough'):
        n = NSHARD[tier] if fam in ('stat', 'pairs', 'local') else max(4, NSHARD[tier] // 4)
        found = False
        for k in range(n):
            for prog in programs(tier, fam, k, n):
                if isinstance(prog, tuple):
                    continue
                want = L.expected_ref_tokens(prog)
                try:
                    sig = [t.text for t in reflex.significant(reflex.lex(src))]
                except reflex.Reject:
                    sig = None
                if sig == want:
                    check_program(prog, src, res, 'replay', fam)
                    found = True
                    break
            if found:
                break
        if found:
            break
    return [(s, v[0]) for s, v in res.violations.items()]
