"""C15 — P8SCII <-> Unicode conversion is a bijection on all byte strings.

Exhaustive: all 256 single bytes, all 65 536 byte pairs, all triples over the bytes whose
spelling has more than one code point or shares a first code point with another spelling, and
the table-level facts (256 distinct spellings, prefix-freeness over all ordered pairs, UTF-8
encodability) from which "all pairs round-trip" extends to all strings.
"""
from lib.core import ShardResult

LEVEL = 'exploration'
RULE = ('every byte string of length 1 and 2 (65 792 strings), every triple over the bytes with multi-code-point '
        'or first-code-point-sharing spellings, and every ordered pair of table entries for the prefix relation; '
        'a case is non-trivial when it contains a byte >= 0x80 or a control byte < 0x20 (non-ASCII spelling)')
ASSUMPTIONS = ['prefix-freeness of the 256 spellings + exhaustive pairs implies unambiguous decoding of all strings',
               'UTF-8 encode/decode of Python is trusted']
BOUNDS = {'quick': {'max_len': 2, 'triples': 'special bytes only'},
          'thorough': {'max_len': 2, 'triples': 'special bytes x all bytes in the middle'}}


def _mods():
    from pico8.lua import lua
    return lua


def roundtrip(bs):
    lua = _mods()
    u = lua.p8scii_to_unicode(bs)
    enc = u.encode('utf-8')          # must be encodable
    back = lua.unicode_to_p8scii(enc.decode('utf-8'))
    return u, back


def check_string(bs, res):
    res.evaluations += 1
    try:
        u, back = roundtrip(bs)
    except Exception as e:
        res.violation('C15|raise|%s|first=%#x' % (type(e).__name__, bs[0]),
                      'round trip of %r raised %r' % (bs, e), {'kind': 'string', 'bytes': bs})
        return
    if any(b >= 0x80 or b < 0x20 for b in bs):
        res.nontriv(bs)
    if back != bytes(bs):
        bad = next(i for i in range(min(len(back), len(bs)) + 1)
                   if i >= len(back) or i >= len(bs) or back[i] != bs[i])
        res.violation('C15|mismatch|byte=%#x' % (bs[bad] if bad < len(bs) else -1),
                      'p8scii %r -> unicode %r -> p8scii %r' % (bs, u, back), {'kind': 'string', 'bytes': bs})
    res.outcome(u)


def special_bytes():
    lua = _mods()
    firsts = {}
    for c in lua.P8SCII_CHARSET:
        firsts.setdefault(c.p8string[0], []).append(c.p8scii)
    sp = set()
    for c in lua.P8SCII_CHARSET:
        if len(c.p8string) > 1 or len(firsts[c.p8string[0]]) > 1:
            sp.add(c.p8scii)
    # plus anything whose spelling contains a code point that starts another spelling
    for c in lua.P8SCII_CHARSET:
        for ch in c.p8string[1:]:
            for b in firsts.get(ch, []):
                sp.add(b)
                sp.add(c.p8scii)
    return sorted(sp)


FILE_VERSIONS = [33, 0, 5, 8, 15, 16, 29, 41]


def check_p8_pairs(k, res):
    """"The Unicode text stored in .p8 files", exhaustively over byte pairs: all 65 536 pairs (LF / CR excepted) as comment
    lines of real .p8 files, 16 first bytes per cart; cart 16: byte strings that are themselves the UTF-8 encoding of a
    table spelling (text that LOOKS already converted must still be converted), alone and doubled."""
    import io
    from pico8.game.formatter.p8 import P8Formatter
    from lib import carts
    lua = _mods()
    lines = []
    if k == 17:
        # lines that read '__' glyphs '__' (inside a long comment): a .p8 section header is an ASCII word between the
        # underscores, whatever Unicode class the glyph's spelling has
        for c in list(range(0x80, 0x100)) + list(range(16, 32)) + [127]:
            lines.append(b'--[[\n__' + bytes([c]) + b'__\n__' + bytes([c, c]) + b'x__\n]]\n')
    elif k < 16:
        for a in range(16 * k, 16 * k + 16):
            for b in range(256):
                if a in (0, 10, 13) or b in (0, 10, 13):
                    continue
                lines.append(b'--' + bytes([a, b]) + b'|\n')
    else:
        for c in range(256):
            enc = lua.p8scii_to_unicode(bytes([c])).encode('utf-8')
            if b'\n' in enc or b'\r' in enc or b'\x00' in enc:
                continue
            lines.append(b'--' + enc + b'|\n')
            lines.append(b'--' + enc + enc + b' ' + enc + b'\n')      # (comments only: the writer may re-spell quoted strings)
    code = b''.join(lines)
    res.evaluations += 1
    res.count('p8_file_pair_lines', len(lines))
    res.nontriv(('p8pairs', k))
    case = {'kind': 'p8pairs', 'k': k}
    try:
        # (the conversion belongs to the file format, not to a cart version: versions rotate over the carts)
        g = carts.make_game({}, version=FILE_VERSIONS[k % len(FILE_VERSIONS)], code_lines=[code])
        buf = io.BytesIO()
        P8Formatter.to_file(g, buf, filename='t.p8')
        raw = buf.getvalue()
        raw.decode('utf-8')
        back = b''.join(P8Formatter.from_file(io.BytesIO(raw), filename='t.p8').lua.to_lines())
    except Exception as e:
        res.violation('C15|p8file|pairs|raise|%s' % type(e).__name__, 'writing/reading the .p8 of pair cart %d raised %r' % (k, e), case)
        return
    if back != code:
        a_l, b_l = code.split(b'\n'), back.split(b'\n')
        j = next((i for i in range(min(len(a_l), len(b_l))) if a_l[i] != b_l[i]), min(len(a_l), len(b_l)))
        res.violation('C15|p8file|pairs|mismatch|%s' % ('utf8-lookalike' if k == 16 else 'pair'),
                      '.p8 write/read changed the line %r into %r' % (a_l[j] if j < len(a_l) else None, b_l[j] if j < len(b_l) else None), case)
    else:
        res.outcome(('p8pairs', k == 16))


HIST_OPS = ['good', 'good-low', 'raw-glyph', 'bad-utf8', 'outside-table', 'raw-in-gfx-label', 'write']


def _hist_file(op):
    head = b'pico-8 cartridge // http://www.pico-8.com\nversion 33\n__lua__\n'
    if op == 'good':
        code = b''.join(b'--' + bytes([b]) + b'|\n' for b in range(16, 256)) + b'x="\x8e\x97"\n'
    elif op == 'good-low':
        code = b'-- \x10\x1f\x7f\x80\xff plain\nprint("\x8b")\n'
    else:
        code = None
    if code is not None:
        lua = _mods()
        return head + lua.p8scii_to_unicode(code).encode('utf-8') + b'__gfx__\n', code
    if op == 'raw-glyph':
        return head + b'-- old cart \x8e raw\nx=1\n', None
    if op == 'bad-utf8':
        return head + b'x=1\n-- \xe2\x28\xa1 \xc3\n', None
    if op == 'outside-table':
        return head + 'x=1 -- \u4e2d\u6587 \u00e9\n'.encode('utf-8'), None
    if op == 'raw-in-gfx-label':
        return head + b'x=1\n__gfx__\n\x8e\x8e\n__label__\n\xff\n', None
    raise ValueError(op)


def check_history(seq, res, firsts):
    """Reads (and one write) of .p8 files one after another in ONE process: the text conversion of a well-formed file
    does not depend on which files -- well-formed or not -- were handled before it, and what happens to a malformed file
    is what happens to it as the first file of a process (firsts: op -> outcome alone)."""
    import io
    from pico8.game.formatter.p8 import P8Formatter
    from lib import carts
    case = {'kind': 'history', 'seq': list(seq)}
    res.evaluations += 1
    res.nontriv(('hist', tuple(seq)))
    for i, op in enumerate(seq):
        res.transitions += 1
        if op == 'write':
            try:
                code = b'--\x8e\x10|\n'
                buf = io.BytesIO()
                P8Formatter.to_file(carts.make_game({}, version=33, code_lines=[code]), buf, filename='w.p8')
                out = ('text', buf.getvalue().split(b'__lua__\n')[1].split(b'__gfx__')[0])
            except Exception as e:
                out = ('raise', type(e).__name__)
        else:
            raw, code = _hist_file(op)
            try:
                g = P8Formatter.from_file(io.BytesIO(raw), filename='h.p8')
                out = ('text', b''.join(g.lua.to_lines()))
            except Exception as e:
                out = ('raise', type(e).__name__)
            if code is not None and out != ('text', code):
                res.violation('C15|history|%s|after=%s' % (op, '+'.join(seq[:i]) or 'nothing'),
                              'a well-formed .p8 read after %r in the same process gives %r, the file says %r' % (
                                  seq[:i], out[1][:60], code[:60]), case)
                return
        if op not in firsts:
            firsts[op] = out
        elif firsts[op] != out:
            res.violation('C15|history|%s|differs|after=%s' % (op, '+'.join(seq[:i]) or 'nothing'),
                          'handling %r after %r gives %r; as the first file of a process it gives %r' % (
                              op, seq[:i], out, firsts[op]), case)
            return
    res.outcome(('history', tuple(firsts[o][0] for o in seq)))


def tempfile_mkdtemp():
    import tempfile
    return tempfile.mkdtemp(prefix='c15loc_')


def shutil_rmtree(d):
    import shutil
    shutil.rmtree(d, ignore_errors=True)


def long_payloads():
    """One-line payloads whose length, in P8SCII characters or in the UTF-8 bytes of their .p8 spelling, sits on either
    side of 2^15 and 2^16 (the code limit is 65535 characters; a glyph takes 3-7 UTF-8 bytes)."""
    allb = bytes(b for b in range(1, 256) if b not in (10, 13))
    out = []
    for b in (0x80, 0x8b, 0x99, 0x7f, 0x41):
        for n in (10922, 10923, 21845, 21846, 32767, 32768, 65533):
            out.append(bytes([b]) * n)
    for n in (4096, 21846, 32768, 65533):
        out.append((allb * (n // len(allb) + 1))[:n])
    return out


def check_longline(k, res):
    import io
    from pico8.game.formatter.p8 import P8Formatter
    from lib import carts
    payload = long_payloads()[k]
    check_string(payload, res)
    code = b'--' + payload + b'\nx=1\n'
    res.evaluations += 1
    res.nontriv(('longline', k))
    case = {'kind': 'longline', 'k': k}
    try:
        g = carts.make_game({}, version=33, code_lines=[code])
        buf = io.BytesIO()
        P8Formatter.to_file(g, buf, filename='t.p8')
        raw = buf.getvalue()
        g2 = P8Formatter.from_file(io.BytesIO(raw), filename='t.p8')
        back = b''.join(g2.lua.to_lines())
    except Exception as e:
        res.violation('C15|p8file|longline|raise|%s' % type(e).__name__,
                      'a .p8 holding one comment line of %d characters (byte %#x..., %d UTF-8 bytes) raised %r' % (
                          len(payload), payload[0], len(raw) if 'raw' in dir() else -1, e), case)
        return
    if back != code:
        j = next((i for i in range(min(len(back), len(code))) if back[i] != code[i]), min(len(back), len(code)))
        res.violation('C15|p8file|longline|mismatch',
                      'a .p8 holding one comment line of %d characters reads back differently from offset %d (%d vs %d bytes)' % (
                          len(payload), j, len(back), len(code)), case)
    else:
        res.outcome(('longline', len(payload) > 32768))


def shards(tier, seed):
    items = [('table',)]
    for lo in range(0, 256, 16):
        items.append(('pairs', lo, lo + 16))
    items.append(('triples', tier))
    items.append(('p8file',))
    items.append(('history', 3 if tier == 'quick' else 4))
    items += [('longlines', k) for k in range(len(long_payloads()))]
    items += [('p8pairs', k) for k in range(16)] + [('p8pairs', 16), ('p8pairs', 17)]
    return items


def run_shard(item):
    res = ShardResult()
    lua = _mods()
    if item[0] == 'table':
        cs = lua.P8SCII_CHARSET
        res.evaluations += 1
        if len(cs) != 256 or [c.p8scii for c in cs] != list(range(256)):
            res.violation('C15|table|index', 'P8SCII_CHARSET is not indexed 0..255', {'kind': 'table'})
            return res
        spell = [c.p8string for c in cs]
        for i in range(256):
            res.evaluations += 1
            if not spell[i]:
                res.violation('C15|table|empty|%#x' % i, 'byte %#x has an empty spelling' % i, {'kind': 'table'})
            try:
                spell[i].encode('utf-8')
            except Exception as e:
                res.violation('C15|table|utf8|%#x' % i, 'spelling of %#x not UTF-8 encodable: %r' % (i, e),
                              {'kind': 'table'})
            for j in range(256):
                if i == j:
                    continue
                res.evaluations += 1
                if spell[i] == spell[j]:
                    res.violation('C15|table|dup|%#x|%#x' % (min(i, j), max(i, j)),
                                  'bytes %#x and %#x share the spelling %r' % (i, j, spell[i]), {'kind': 'table'})
                elif spell[j].startswith(spell[i]):
                    res.violation('C15|table|prefix|%#x|%#x' % (i, j),
                                  'spelling %r of %#x is a prefix of %r of %#x' % (spell[i], i, spell[j], j),
                                  {'kind': 'table'})
                res.nontriv(('tp', i, j))
        res.sample({'table_entry': [0x8b, spell[0x8b]]})
        for b in range(256):
            check_string(bytes([b]), res)
        res.sample({'bytes': bytes([0x97])})
        return res
    if item[0] == 'pairs':
        for a in range(item[1], item[2]):
            for b in range(256):
                check_string(bytes([a, b]), res)
        res.sample({'bytes': bytes([item[1], 0x8e])})
        return res
    if item[0] == 'history':
        import itertools
        firsts = {}
        for op in HIST_OPS:
            check_history((op,), res, firsts)
        for n in range(2, item[1] + 1):
            for seq in itertools.product(HIST_OPS, repeat=n):
                check_history(seq, res, firsts)
        res.states += len(HIST_OPS) ** item[1]
        res.sample({'history': ['raw-glyph', 'good'], 'meaning': 'a malformed .p8 is read, then a well-formed one, in one process'})
        return res
    if item[0] == 'p8pairs':
        check_p8_pairs(item[1], res)
        if item[1] == 0:
            res.sample({'p8pairs': 'every byte pair as a comment line of a .p8 file (4096 lines per cart)', 'line': b'--\xc2\xa5|\n'})
        return res
    if item[0] == 'longlines':
        check_longline(item[1], res)
        if item[1] == 0:
            res.sample({'longline': 'one comment line of 10922 x byte 0x80 (32766 UTF-8 bytes)'})
        return res
    if item[0] == 'p8file':
        # "the Unicode text stored in .p8 files": every byte (and the special pairs) written to a .p8 and read back
        import io
        from pico8.game.formatter.p8 import P8Formatter
        from lib import carts
        sp = special_bytes()
        lines = []
        for b in range(1, 256):
            if b in (10, 13):
                continue
            lines.append(b'--' + bytes([b]) + b'|' + bytes([b, b]) + b'\n')
        for a in sp:
            for b in sp:
                lines.append(b'--' + bytes([a, b]) + b'\n')
        code = b''.join(lines)
        res.evaluations += 1
        res.nontriv(('p8file',))
        case = {'kind': 'p8file'}
        try:
            for ver in FILE_VERSIONS[::-1]:
                g = carts.make_game({}, version=ver, code_lines=[code])
                buf = io.BytesIO()
                P8Formatter.to_file(g, buf, filename='t.p8')
                raw = buf.getvalue()
                raw.decode('utf-8')
                g2 = P8Formatter.from_file(io.BytesIO(raw), filename='t.p8')
                back = b''.join(g2.lua.to_lines())
                res.evaluations += 1
                if back != code:
                    res.violation('C15|p8file|mismatch|version=%d' % ver,
                                  'a version-%d .p8 holding every byte reads back differently (the text conversion does not depend on the cart version)' % ver, case)
                    return res
        except Exception as e:
            res.violation('C15|p8file|raise|%s' % type(e).__name__, 'writing/reading a .p8 holding every byte raised %r' % (e,), case)
            return res
        # the file's text is UTF-8 whatever the process's locale says (an environment answer the harness owns: a child
        # process with LC_ALL=C, UTF-8 mode and locale coercion off, writes the same cart by name)
        import os
        import subprocess
        import sys
        dloc = tempfile_mkdtemp()
        try:
            script = ('import sys\nsys.path.insert(0, %r)\nsys.path.insert(0, %r)\nfrom lib import carts\nfrom pico8.game import file as f\n'
                      'code = bytes([45, 45]) + bytes(b for b in range(16, 256) if b not in (10, 13)) + bytes([10])\n'
                      'f.to_file(carts.make_game({}, version=33, code_lines=[code]), %r)\n' % (
                          os.environ.get('VERIF_REPO', '/repo'), '/verif', os.path.join(dloc, 'loc.p8')))
            env = dict(os.environ, LC_ALL='C', LANG='C', PYTHONUTF8='0', PYTHONCOERCECLOCALE='0', PYTHONIOENCODING='')
            r_ = subprocess.run([sys.executable, '-c', script], env=env, capture_output=True, timeout=120)
            res.evaluations += 1
            code_l = b'--' + bytes(b for b in range(16, 256) if b not in (10, 13)) + b'\n'
            ok_ = False
            if r_.returncode == 0 and os.path.exists(os.path.join(dloc, 'loc.p8')):
                try:
                    txt = open(os.path.join(dloc, 'loc.p8'), 'rb').read()
                    txt.decode('utf-8')
                    ok_ = b''.join(P8Formatter.from_file(io.BytesIO(txt), filename='loc.p8').lua.to_lines()) == code_l
                except Exception:
                    ok_ = False
            if not ok_:
                res.violation('C15|p8file|non-utf8-locale', 'writing a .p8 holding every glyph in a process whose locale encoding is ASCII (LC_ALL=C): %s' % (
                    'failed: ' + r_.stderr.decode('latin-1')[-200:] if r_.returncode else 'the file is not the UTF-8 text of the cart'), case)
        finally:
            shutil_rmtree(dloc)
        # code whose last line is not terminated: every special byte as the last character (the writer supplies the
        # newline; the text before it is converted like any other)
        for b in sp + [0x10, 0x1f, 0x7f, 0x80, 0xff]:
            tail = b'x=1\n--' + bytes([b])
            res.evaluations += 1
            try:
                g = carts.make_game({}, version=33, code_lines=[tail])
                buf = io.BytesIO()
                P8Formatter.to_file(g, buf, filename='t.p8')
                buf.getvalue().decode('utf-8')
                got = b''.join(P8Formatter.from_file(io.BytesIO(buf.getvalue()), filename='t.p8').lua.to_lines())
            except Exception as e:
                res.violation('C15|p8file|unterminated-last-line|raise|%s' % type(e).__name__,
                              'a .p8 whose code ends in byte %#x without a newline: %r' % (b, e), case)
                break
            if got not in (tail, tail + b'\n'):
                res.violation('C15|p8file|unterminated-last-line|mismatch', 'code ending in byte %#x without a newline reads back as %r' % (b, got[-12:]), case)
                break
        # the same text when the cart is pulled in by another cart's #include (whole, and one tab of it)
        import os
        import shutil
        import tempfile
        from pico8.game import file as p8file
        d = tempfile.mkdtemp(prefix='c15inc_')
        try:
            open(os.path.join(d, 'inc.p8'), 'wb').write(raw)
            head = b'pico-8 cartridge // http://www.pico-8.com\nversion 33\n__lua__\n'
            for sel in (b'', b':0'):
                open(os.path.join(d, 'main.p8'), 'wb').write(head + b'#include inc.p8' + sel + b'\n')
                res.evaluations += 1
                try:
                    inc = b''.join(p8file.from_file(os.path.join(d, 'main.p8')).lua.to_lines())
                except Exception as e:
                    res.violation('C15|p8file|included|raise|%s' % type(e).__name__,
                                  'loading a cart that #includes the .p8 holding every byte raised %r' % (e,), case)
                    break
                if inc != code:
                    a_l, b_l = code.split(b'\n'), inc.split(b'\n')
                    k = next((i for i in range(min(len(a_l), len(b_l))) if a_l[i] != b_l[i]), min(len(a_l), len(b_l)))
                    res.violation('C15|p8file|included|mismatch',
                                  'a .p8 read through #include inc.p8%s gives line %d as %r, the file says %r' % (
                                      sel.decode(), k, b_l[k] if k < len(b_l) else None, a_l[k] if k < len(a_l) else None), case)
                    break
        finally:
            shutil.rmtree(d, ignore_errors=True)
        if back != code:
            src_l = code.split(b'\n')
            got_l = back.split(b'\n')
            k = next((i for i in range(min(len(src_l), len(got_l))) if src_l[i] != got_l[i]), min(len(src_l), len(got_l)))
            res.violation('C15|p8file|mismatch|byte=%#x' % (src_l[k][2] if k < len(src_l) and len(src_l[k]) > 2 else -1),
                          '.p8 write/read changed line %d: %r -> %r' % (k, src_l[k] if k < len(src_l) else None,
                                                                        got_l[k] if k < len(got_l) else None), case)
        res.sample({'p8file_line': lines[143]})
        return res
    if item[0] == 'triples':
        sp = special_bytes()
        res.count('special_bytes', len(sp))
        mid = range(256) if item[1] == 'thorough' else sp
        for a in sp:
            for b in mid:
                for c in sp:
                    check_string(bytes([a, b, c]), res)
        if sp:
            res.sample({'bytes': bytes([sp[0], sp[-1], sp[0]])})
        return res
    raise ValueError(item)


def replay(case):
    res = ShardResult()
    if case.get('kind') == 'p8pairs':
        check_p8_pairs(case['k'], res)
    elif case.get('kind') == 'longline':
        check_longline(case['k'], res)
    elif case.get('kind') == 'p8file':
        res.merge(run_shard(('p8file',)))
    elif case.get('kind') == 'history':
        firsts = {}
        for op in HIST_OPS:
            check_history((op,), res, firsts)
        check_history(tuple(case['seq']), res, firsts)
    elif case.get('kind') == 'string':
        check_string(case['bytes'], res)
    else:
        r = run_shard(('table',))
        res.merge(r)
    return [(s, v[0]) for s, v in res.violations.items()]
