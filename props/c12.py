"""C12 — require() and #include never read files outside the permitted directories.

A real directory tree with canary files outside every root (parent directory, prefix-sharing sibling,
absolute path, a sibling of the PICO-8 carts root sharing its prefix); every path string of <= N atoms
over {x, lib, ., .., /, sub/, ../, foobar/, ?, ;, <abs>, carts2/, ~, ~/, carts/, byte 0xff raw and as \\255; in strings of <= 3 atoms also ../FOO/, ../LIBS/, <abs CARTS>, ../CARTS2/ - siblings that differ from a root only in letter case - and the backslash spellings ..\\, \\, sub\\, foobar\\ (raw for #include, escaped inside the Lua string for require)} x load-path settings x cart locations,
driven through the public entries (`p8tool build --lua main.lua`, `file.from_file(cart.p8)`) with
builtins.open / io.open wrapped in-process.  Every opened path inside the sandbox must lie under a
permitted root, else the load must have failed before opening.
"""
import builtins
import io
import itertools
import os
import shutil
import tempfile

from lib.core import ShardResult

LEVEL = 'exploration'
RULE = ('every concatenation of <= N atoms (quick 3, thorough 5) over 17 atoms as require() string (in 9 spellings/positions of the call: parentheses, string-call sugar with each quote kind, with options, inside expressions) x 5 load-path '
        'settings (default, ?/init.lua, lib/?.lua, absolute dir, PICO8_LUA_PATH environment variable) and as #include '
        'path x 4 cart locations (plain directory, below the PICO-8 carts root, in and below a sibling "carts2" sharing '
        'the root\'s name prefix); non-trivial = the string contains "..", "/" at the start, an absolute path or a '
        'prefix-sharing sibling name; distinct = distinct (string, configuration)')
ASSUMPTIONS = ['only opens of paths inside the sandbox tree are judged (the interpreter, picotool\'s bundled label image and '
               'staging files live elsewhere); os.path.isfile probes are recorded but not judged (the statement speaks of '
               'opening)',
               'permitted roots for require: the requiring file\'s directory and every directory named by a load-path '
               'entry; for #include: the carts root if the cart is below it, else the cart\'s directory']
BOUNDS = {'quick': {'atoms': 3}, 'thorough': {'atoms': 5}}

ATOMS = ['x', 'lib', '.', '..', '/', 'sub/', '../', 'foobar/', '?', ';', '<abs>', 'carts2/', '~', '~/', 'carts/', '\xff', '\\255']
# directories whose names differ from a permitted root only in letter case (a case-insensitive containment test lets them
# in): used in strings of <= 3 atoms in both tiers
CASE_ATOMS = ['../FOO/', '../LIBS/', '<ABS-CARTS>', '../CARTS2/',
              # the Windows spelling of the separator: on this platform a backslash is an ordinary file-name character,
              # so these strings name (non-existing) files inside the directory - unless something rewrites them
              '..\\', '\\', 'sub\\', 'foobar\\',
              # the same inside a Lua string literal (backslash escaped)
              '..\\\\', '\\\\', 'foobar\\\\',
              # siblings of a directory whose name holds pattern characters ('p.r+j'): the names a pattern built from
              # that name would also match
              '../pXr+j/', '../p.rrj/',
              # the permitted root itself, spelled as an absolute path (then '..' climbs out of it again)
              '<ROOT>']
INCLUDE_ONLY = ('carts2/', 'carts/', '<ABS-CARTS>', '../CARTS2/', '..\\', '\\', 'sub\\', 'foobar\\', '../pXr+j/', '../p.rrj/')
REQUIRE_ONLY = ('\xff', '\\255', '..\\\\', '\\\\', 'foobar\\\\')     # a byte that is not UTF-8, raw and as a Lua escape; escaped backslashes


class Sandbox(object):
    def __init__(self):
        self.root = os.path.realpath(tempfile.mkdtemp(prefix='c12_'))
        r = self.root
        self.proj = os.path.join(r, 'foo')
        self.home = os.path.join(r, 'home')
        self.carts = os.path.join(self.home, '.lexaloffle', 'pico-8', 'carts')
        self.carts2 = os.path.join(self.home, '.lexaloffle', 'pico-8', 'carts2')
        self.libs = os.path.join(r, 'libs')
        self.abs = os.path.join(r, 'abs')
        for d in (self.proj, os.path.join(self.proj, 'lib'), os.path.join(self.proj, 'sub'), os.path.join(self.proj, 'x'),
                  os.path.join(r, 'foobar'), self.libs, self.abs, os.path.join(self.carts, 'game'),
                  os.path.join(self.carts, 'shared'), self.carts2, os.path.join(self.carts2, 'game'),
                  os.path.join(r, 'x'), os.path.join(r, 'lib'), os.path.join(r, 'FOO'), os.path.join(r, 'LIBS'),
                  os.path.join(r, 'p.r+j'), os.path.join(r, 'pXr+j'), os.path.join(r, 'p.rrj'),
                  os.path.join(self.home, '.lexaloffle', 'pico-8', 'CARTS'),
                  os.path.join(self.home, '.lexaloffle', 'pico-8', 'CARTS2')):
            os.makedirs(d, exist_ok=True)
        body = b'v=1\n'
        inside = ['foo/x.lua', 'foo/lib/x.lua', 'foo/lib/init.lua', 'foo/sub/x.lua', 'foo/sub/lib.lua', 'foo/x/init.lua', 'foo/lib.lua',
                  'libs/x.lua', 'libs/lib.lua']
        canaries = ['x.lua', 'init.lua', 'lib.lua', 'x/init.lua', 'lib/init.lua', 'lib/x.lua', 'foobar/x.lua',
                    'foobar/init.lua', 'foobar/lib.lua', 'abs/x.lua', 'abs/init.lua', 'x',
                    'FOO/x.lua', 'FOO/lib.lua', 'FOO/init.lua', 'FOO/x', 'LIBS/x.lua', 'LIBS/lib.lua',
                    'pXr+j/x.lua', 'pXr+j/lib.lua', 'p.rrj/x.lua', 'p.rrj/lib.lua', 'p.r+j/x.lua',
                    'home/.lexaloffle/pico-8/CARTS/x.lua', 'home/.lexaloffle/pico-8/CARTS/lib.lua',
                    'home/.lexaloffle/pico-8/CARTS2/x.lua', 'home/.lexaloffle/pico-8/CARTS2/lib.lua']
        for f in inside + canaries:
            p = os.path.join(r, f)
            if not os.path.isdir(p):
                open(p, 'wb').write(body)
        # the working directory of every build: neither the requiring file's directory nor on the load path, and full of
        # files named like everything a require can name (a relative load path entry is relative to the requiring file)
        self.cwd = os.path.join(r, 'cwd')
        for f in ('x.lua', 'lib.lua', 'init.lua', 'sub/x.lua', 'sub/lib.lua', 'sub/a.lua', 'lib/x.lua', 'lib/init.lua',
                  'lib/lib.lua', 'x/init.lua', 'sub/lib/x.lua', 'sub/x/init.lua'):
            p = os.path.join(self.cwd, f)
            os.makedirs(os.path.dirname(p), exist_ok=True)
            if not os.path.isdir(p) and not os.path.exists(p):
                try:
                    open(p, 'wb').write(b'cwd_canary=1\n')
                except OSError:
                    pass
        for base in (self.carts, self.carts2):
            for f in ('game/x.lua', 'shared/x.lua', 'x.lua', 'lib.lua'):
                p = os.path.join(base, f)
                os.makedirs(os.path.dirname(p), exist_ok=True)
                open(p, 'wb').write(body)
        open(os.path.join(self.home, '.lexaloffle', 'pico-8', 'x.lua'), 'wb').write(body)
        for f in ('x.lua', 'lib.lua', 'x', 'init.lua'):
            open(os.path.join(self.home, f), 'wb').write(body)
        os.makedirs(os.path.join(self.home, 'lib'), exist_ok=True)
        open(os.path.join(self.home, 'lib', 'x.lua'), 'wb').write(body)
        self.opened = []

    def close(self):
        shutil.rmtree(self.root, ignore_errors=True)

    def atom(self, a):
        if a == '<ABS-CARTS>':
            return os.path.join(self.home, '.lexaloffle', 'pico-8', 'CARTS') + '/'
        return self.abs + '/' if a == '<abs>' else a


# Canary files directly below the file system's root directory. The sandbox cannot create them, so they are an
# environment answer the harness owns: while a build runs, os.path.isfile / exists say they are there and open() hands out
# their content -- and records the open like any other.
ROOT_CANARIES = ['/init.lua', '/x.lua', '/lib.lua', '/.lua', '/x', '/lib', '/x/init.lua', '/lib/init.lua']


class OpenTracer(object):
    """Records every open() of a path inside the sandbox (and of the canaries below the file system root)."""

    def __init__(self, sb):
        self.sb = sb
        self.log = []

    def __enter__(self):
        self._open = builtins.open
        self._ioopen = io.open
        self._isfile = os.path.isfile
        self._exists = os.path.exists
        tracer = self

        def root_canary(file):
            try:
                if isinstance(file, (str, bytes, os.PathLike)):
                    q = os.fsdecode(file)
                    if q.startswith('/') and os.path.normpath(q) in ROOT_CANARIES and not tracer._exists(q):
                        return os.path.normpath(q)
            except Exception:
                pass
            return None

        def traced(file, *a, **k):
            rc_ = root_canary(file)
            if rc_ is not None:
                mode = a[0] if a else k.get('mode', 'r')
                tracer.log.append((rc_, mode))
                if 'b' in mode:
                    return io.BytesIO(b'v=1\n')
                return io.StringIO('v=1\n')
            try:
                if isinstance(file, (str, bytes, os.PathLike)):
                    p = os.fsdecode(file)
                    rp = os.path.realpath(p)
                    if rp.startswith(tracer.sb.root + os.sep):
                        mode = a[0] if a else k.get('mode', 'r')
                        tracer.log.append((rp, mode))
            except Exception:
                pass
            return tracer._open(file, *a, **k)

        def isfile(path):
            return True if root_canary(path) is not None else tracer._isfile(path)

        def exists(path):
            return True if root_canary(path) is not None else tracer._exists(path)
        builtins.open = traced
        io.open = traced
        os.path.isfile = isfile
        os.path.exists = exists
        return self

    def __exit__(self, *exc):
        builtins.open = self._open
        io.open = self._ioopen
        os.path.isfile = self._isfile
        os.path.exists = self._exists
        return False


def under(path, root):
    return path == root or path.startswith(root + os.sep)


def location_class(sb, rp):
    if rp in ROOT_CANARIES:
        return 'file-system-root'
    rel = os.path.relpath(rp, sb.root)
    if any(part in ('FOO', 'LIBS', 'CARTS', 'CARTS2') for part in rel.split(os.sep)):
        return 'root-name-in-other-letter-case'
    if rel.split(os.sep)[0] in ('pXr+j', 'p.rrj'):
        return 'name-matching-the-root-as-a-pattern'
    if rel.startswith('foobar' + os.sep):
        return 'prefix-sharing-sibling'
    if rel.startswith('abs' + os.sep):
        return 'absolute-path'
    if rel.startswith('cwd' + os.sep):
        return 'working-directory'
    if rel.startswith(os.path.join('home', '.lexaloffle', 'pico-8', 'carts2')):
        return 'carts-root-prefix-sibling'
    if rel.startswith(os.path.join('home', '.lexaloffle', 'pico-8', 'carts') + os.sep):
        return 'other-cart-dir'
    if rel.startswith(os.path.join('home', '.lexaloffle')):
        return 'above-carts-root'
    if rel.startswith('home'):
        return 'home-directory'
    if os.sep not in rel or rel.startswith('x' + os.sep) or rel.startswith('lib' + os.sep):
        return 'parent-directory'
    if rel.startswith('foo' + os.sep):
        return 'project-dir-outside-module-dir'
    return 'elsewhere'


LOADPATHS = ['default', 'init', 'libdir', 'absolute', 'env']


FORMS = ['paren', 'sugar-dq', 'sugar-sq', 'sugar-long', 'assign-sugar', 'paren-opts', 'expr-paren', 'call-arg', 'call-prefix']


def require_call(p, form):
    q = p.encode('latin-1')
    return {'paren': b'require("' + q + b'")\n',
            'sugar-dq': b'require "' + q + b'"\n',
            'sugar-sq': b"require'" + q + b"'\n",
            'sugar-long': b'require[[' + q + b']]\n',
            'assign-sugar': b'local m = require "' + q + b'"\nx = m\n',
            'paren-opts': b'require("' + q + b'", {use_game_loop=true})\n',
            'expr-paren': b'local m = {lib=require("' + q + b'")}\n',
            'call-arg': b'f(1, require("' + q + b'"))\n',
            'call-prefix': b'require("' + q + b'").f()\n'}[form]


def check_require(sb, p, lp, res, form='paren'):
    from pico8 import tool
    res.evaluations += 1
    p = p.replace('<ROOT>', sb.proj + '/')
    main = os.path.join(sb.proj, 'main.lua')
    out = os.path.join(sb.proj, 'out.p8')
    if os.path.exists(out):
        os.unlink(out)
    open(main, 'wb').write(require_call(p, form))
    args = ['build', out, '--lua', main]
    allowed = [sb.proj]
    art = None
    if (len(p) + len(lp) + len(form)) % 3 == 0:
        # another section comes from a cart in a directory outside every root: naming that cart permits opening IT, not
        # looking packages up next to it
        art = os.path.join(sb.abs, 'art.p8')
        open(art, 'wb').write(b'pico-8 cartridge // http://www.pico-8.com\nversion 33\n__lua__\nart=1\n__gfx__\n' + b'1' * 128 + b'\n')
        args += ['--music', art]
    env_old = os.environ.pop('PICO8_LUA_PATH', None)
    if lp == 'init':
        args += ['--lua-path', '?;?.lua;?/init.lua']
    elif lp == 'libdir':
        args += ['--lua-path', 'lib/?.lua;?.lua']
    elif lp == 'absolute':
        args += ['--lua-path', sb.libs + '/?.lua;?.lua']
        allowed.append(sb.libs)
    elif lp == 'env':
        os.environ['PICO8_LUA_PATH'] = sb.libs + '/?.lua;?;?.lua'
        allowed.append(sb.libs)
    case = {'kind': 'require', 'p': p.replace(sb.root, '<SB>'), 'loadpath': lp, 'form': form}
    if any(t in p for t in ('..', 'foobar', sb.abs, '~', 'FOO', 'LIBS')) or p.startswith('/'):
        res.nontriv(('require', p, lp))
    home_old = os.environ.get('HOME')
    os.environ['HOME'] = sb.home
    try:
        cwd0 = os.getcwd()
        os.chdir(sb.cwd)
        try:
            with OpenTracer(sb) as tr:
                try:
                    rcode = tool.main(args)
                    err = None
                except BaseException as e:
                    rcode = None
                    err = e
        finally:
            os.chdir(cwd0)
    finally:
        os.environ.pop('PICO8_LUA_PATH', None)
        if env_old is not None:
            os.environ['PICO8_LUA_PATH'] = env_old
        if home_old is None:
            os.environ.pop('HOME', None)
        else:
            os.environ['HOME'] = home_old
    for rp, mode in tr.log:
        if rp in (os.path.realpath(main), os.path.realpath(out)) or (art and rp == os.path.realpath(art)):
            continue
        if not any(under(rp, a) for a in allowed):
            res.violation('C12|require|opened-outside|%s|loadpath=%s%s' % (location_class(sb, rp), lp, '' if form == 'paren' else '|form=' + form),
                          ('require(%r) [call form %s] with load path %s opened %s, outside the requiring file\'s directory and '
                           'the load path') % (p.replace(sb.root, '<SB>'), form, lp, os.path.relpath(rp, sb.root)), case)
            return
    res.outcome(('require', rcode == 0, err is not None))
    res.cover('require_outcomes', ('ok' if rcode == 0 else 'refused'))


def check_require_nested(sb, p, lp, res, form='paren'):
    """The require() sits in a module that lives in a subdirectory: its own directory is the permitted root."""
    from pico8 import tool
    res.evaluations += 1
    main = os.path.join(sb.proj, 'main.lua')
    out = os.path.join(sb.proj, 'out.p8')
    mod = os.path.join(sb.proj, 'sub', 'a.lua')
    p = p.replace('<ROOT>', os.path.join(sb.proj, 'sub') + '/')
    if os.path.exists(out):
        os.unlink(out)
    open(main, 'wb').write(b'require("sub/a")\n')
    open(mod, 'wb').write(require_call(p, form))
    args = ['build', out, '--lua', main]
    allowed = [os.path.join(sb.proj, 'sub')]
    env_old = os.environ.pop('PICO8_LUA_PATH', None)
    if lp == 'absolute':
        args += ['--lua-path', sb.libs + '/?.lua;?.lua;?']
        allowed.append(sb.libs)
    elif lp == 'init':
        args += ['--lua-path', '?;?.lua;?/init.lua']
    case = {'kind': 'require-nested', 'p': p.replace(sb.root, '<SB>'), 'loadpath': lp, 'form': form}
    res.nontriv(('nested', p, lp))
    home_old = os.environ.get('HOME')
    os.environ['HOME'] = sb.home
    try:
        cwd0 = os.getcwd()
        os.chdir(sb.cwd)
        try:
            with OpenTracer(sb) as tr:
                try:
                    tool.main(args)
                except BaseException:
                    pass
        finally:
            os.chdir(cwd0)
    finally:
        if env_old is not None:
            os.environ['PICO8_LUA_PATH'] = env_old
        if home_old is None:
            os.environ.pop('HOME', None)
        else:
            os.environ['HOME'] = home_old
        if os.path.exists(mod):
            os.unlink(mod)
    for rp, mode in tr.log:
        if rp in (os.path.realpath(main), os.path.realpath(out), os.path.realpath(mod)):
            continue
        if not any(under(rp, a) for a in allowed):
            res.violation('C12|require-nested|opened-outside|%s|loadpath=%s%s' % (location_class(sb, rp), lp, '' if form == 'paren' else '|form=' + form),
                          'require(%r) inside sub/a.lua (load path %s) opened %s, outside sub/ and the load path' % (
                              p.replace(sb.root, '<SB>'), lp, os.path.relpath(rp, sb.root)), case)
            return
    res.outcome(('require-nested',))


CART_LOCS = ['plain', 'cartsroot', 'carts2', 'carts2top', 'metachars']


def check_include(sb, p, loc, res):
    from pico8.game import file as p8file
    res.evaluations += 1
    if loc == 'metachars':
        d = os.path.join(sb.root, 'p.r+j')      # a directory name with characters that mean something in a pattern
        root = d
    elif loc == 'plain':
        d = sb.proj
        root = sb.proj
    elif loc == 'cartsroot':
        d = os.path.join(sb.carts, 'game')
        root = sb.carts
    elif loc == 'carts2top':
        d = sb.carts2   # directly in the sibling whose name starts with the carts folder's name
        root = d
    else:
        d = os.path.join(sb.carts2, 'game')
        root = d        # carts2 is not a PICO-8 carts folder: the cart's own directory is the root
    p = p.replace('<ROOT>', root + '/')
    cart = os.path.join(d, 'cart.p8')
    open(cart, 'wb').write(b'pico-8 cartridge // http://www.pico-8.com\nversion 33\n__lua__\n#include ' + p.encode() +
                           b'.lua\n')
    case = {'kind': 'include', 'p': p.replace(sb.root, '<SB>'), 'loc': loc}
    if any(t in p for t in ('..', 'foobar', 'carts', sb.abs, 'FOO', 'CARTS')) or p.startswith('/'):
        res.nontriv(('include', p, loc))
    home_old = os.environ.get('HOME')
    os.environ['HOME'] = sb.home
    try:
        with OpenTracer(sb) as tr:
            try:
                p8file.from_file(cart)
                err = None
            except BaseException as e:
                err = e
    finally:
        if home_old is None:
            os.environ.pop('HOME', None)
        else:
            os.environ['HOME'] = home_old
    for rp, mode in tr.log:
        if rp == os.path.realpath(cart):
            continue
        if not under(rp, root):
            res.violation('C12|include|opened-outside|%s|cart=%s' % (location_class(sb, rp), loc),
                          '#include %s.lua from a cart in %s opened %s, outside the include root %s' % (
                              p.replace(sb.root, '<SB>'), os.path.relpath(d, sb.root), os.path.relpath(rp, sb.root),
                              os.path.relpath(root, sb.root)), case)
            return
    res.outcome(('include', err is None))
    res.cover('include_outcomes', ('ok' if err is None else 'refused'))


ODD_PROJECT_DIRS = ['g?me', '?', 'a?b?c', 'p;q', 'pr%sj', 'sp ace', 'st*r', 'br[a]c', '~proj', 'dot.dir', 'x?/y']


def check_odd_project_dirs(res):
    """The project directory's own NAME holds characters that mean something to the load path (the ? placeholder, the ;
    separator) or to patterns: the directory a package is looked up in is the requiring file's directory as it is
    spelled, whatever its name. For each name: packages lib / x / sub/m exist inside; every directory obtained by
    substituting a require string for a ? of the name (and the parts of a name split at ;) exists next to it and holds
    canaries of the same names."""
    import itertools
    from pico8 import tool

    class Mini(object):
        pass
    for name, lp, main_rel in itertools.product(ODD_PROJECT_DIRS, ('default', 'init', 'libdir', 'env-relative'), (False, True)):
        sb = Mini()
        sb.root = os.path.realpath(tempfile.mkdtemp(prefix='c12odd_'))
        try:
            proj = os.path.join(sb.root, 'base', name)
            os.makedirs(os.path.join(proj, 'sub'))
            os.makedirs(os.path.join(proj, 'lib'))
            for f in ('lib.lua', 'x.lua', 'sub/m.lua', 'lib/lib.lua', 'lib/x.lua', 'lib/init.lua'):
                open(os.path.join(proj, f), 'wb').write(b'inside=1\n')
            decoys = set()
            for q in ('lib', 'x', 'sub/m', 'lib.lua', 'x.lua', ''):
                decoys.add(name.replace('?', q))
                decoys.add(name.replace('?', q, 1))
            for part in name.split(';'):
                decoys.add(part)
            decoys.discard(name)
            for dn in sorted(decoys):
                dd = os.path.join(sb.root, 'base', dn)
                if not dn or os.path.exists(dd) or os.path.realpath(dd) == os.path.realpath(proj) or under(os.path.realpath(proj), os.path.realpath(dd)):
                    continue
                try:
                    os.makedirs(os.path.join(dd, 'sub'), exist_ok=True)
                    os.makedirs(os.path.join(dd, 'lib'), exist_ok=True)
                    for f in ('lib.lua', 'x.lua', 'sub/m.lua', 'lib', 'x', 'lib/lib.lua', 'lib/x.lua', 'lib/init.lua', 'init.lua'):
                        fp = os.path.join(dd, f)
                        if not os.path.isdir(fp):
                            open(fp, 'wb').write(b'canary=1\n')
                except OSError:
                    continue
            for fn in ('lib.lua', 'x.lua'):
                if not os.path.isdir(os.path.join(sb.root, 'base', fn)):
                    open(os.path.join(sb.root, 'base', fn), 'wb').write(b'canary=1\n')
            main = os.path.join(proj, 'main.lua')
            out = os.path.join(sb.root, 'out.p8')
            open(main, 'wb').write(b'require("lib")\nrequire("x")\nrequire("sub/m")\n')
            args = ['build', out, '--lua', os.path.join('base', name, 'main.lua') if main_rel else main]
            env_old = os.environ.pop('PICO8_LUA_PATH', None)
            if lp == 'init':
                args += ['--lua-path', '?;?.lua;?/init.lua']
            elif lp == 'libdir':
                args += ['--lua-path', 'lib/?.lua;?.lua']
            elif lp == 'env-relative':
                os.environ['PICO8_LUA_PATH'] = '?.lua;lib/?.lua'
            res.evaluations += 1
            res.nontriv(('odd-project-dir', name, lp, main_rel))
            case = {'kind': 'odd-project-dir', 'name': name, 'loadpath': lp, 'relative_main': main_rel}
            cwd0 = os.getcwd()
            os.chdir(sb.root)
            try:
                with OpenTracer(sb) as tr:
                    try:
                        rcode = tool.main(args)
                        err = None
                    except BaseException as e:
                        rcode, err = None, e
            finally:
                os.chdir(cwd0)
                os.environ.pop('PICO8_LUA_PATH', None)
                if env_old is not None:
                    os.environ['PICO8_LUA_PATH'] = env_old
            bad = [rp for rp, mode in tr.log if rp not in (os.path.realpath(main), os.path.realpath(out)) and not under(rp, os.path.realpath(proj))]
            if bad:
                res.violation('C12|require|opened-outside|project-dir-name=%s|loadpath=%s' % (name, lp),
                              'project directory %r, load path %s: the build opened %s, outside the requiring file\'s directory' % (
                                  name, lp, os.path.relpath(bad[0], sb.root)), case)
            elif rcode != 0 or err is not None:
                res.violation('C12|require|own-directory-not-searched|project-dir-name=%s|loadpath=%s' % (name, lp),
                              'project directory %r, load path %s: the packages next to main.lua were not found (%r)' % (name, lp, err or rcode), case)
            else:
                res.outcome(('odd-project-dir', lp))
        finally:
            shutil.rmtree(sb.root, ignore_errors=True)


def include_history(res):
    """Loads in ONE process whose cart file-name strings are equal while the permitted root differs: the same relative
    name from two working directories, and the same absolute path under two HOME settings (inside / outside a PICO-8
    carts folder). Every order; each load must obey the root that holds for IT."""
    from pico8.game import file as p8file
    head = b'pico-8 cartridge // http://www.pico-8.com\nversion 33\n__lua__\n'
    sb = Sandbox()
    cwd0 = os.getcwd()
    home0 = os.environ.get('HOME')
    try:
        pa, pb = os.path.join(sb.root, 'projA'), os.path.join(sb.root, 'projB')
        for d in (pa, pb):
            os.makedirs(d)
            open(os.path.join(d, 'lib.lua'), 'wb').write(b'v=1\n')
        open(os.path.join(pa, 'cart.p8'), 'wb').write(head + b'#include lib.lua\n')
        open(os.path.join(pb, 'cart.p8'), 'wb').write(head + b'#include ../projA/lib.lua\n')
        home2 = os.path.join(sb.root, 'home2')
        os.makedirs(home2)
        game = os.path.join(sb.carts, 'game', 'game.p8')
        open(game, 'wb').write(head + b'#include ../x.lua\n')      # fine below the carts root of HOME=sb.home only
        # (step name, cwd, HOME, path argument, permitted root)
        steps = {
            'A-rel': (pa, sb.home, 'cart.p8', pa),
            'B-rel': (pb, sb.home, 'cart.p8', pb),
            'game-home1': (sb.root, sb.home, game, sb.carts),
            'game-home2': (sb.root, home2, game, os.path.dirname(game)),
        }
        for order in itertools.permutations(sorted(steps)):
            for rounds in (1, 2):
                seq = list(order) * rounds
                for name in seq:
                    cwd, home, arg, root = steps[name]
                    os.chdir(cwd)
                    os.environ['HOME'] = home
                    res.evaluations += 1
                    with OpenTracer(sb) as tr:
                        try:
                            p8file.from_file(arg)
                        except BaseException:
                            pass
                    os.chdir(cwd0)
                    cartpath = os.path.realpath(os.path.join(cwd, arg))
                    for rp, mode in tr.log:
                        if rp != cartpath and not under(rp, root):
                            res.violation('C12|include-history|opened-outside|%s' % name,
                                          'in the load sequence %r, loading %r (cwd %s, HOME %s) opened %s, outside its include '
                                          'root %s' % (seq[:seq.index(name) + 1], arg.replace(sb.root, '<SB>'),
                                                       os.path.relpath(cwd, sb.root), os.path.relpath(home, sb.root),
                                                       os.path.relpath(rp, sb.root), os.path.relpath(root, sb.root)),
                                          {'kind': 'include-history'})
                            return
                res.nontriv(('history', order, rounds))
        res.outcome(('include-history',))
    finally:
        os.chdir(cwd0)
        if home0 is None:
            os.environ.pop('HOME', None)
        else:
            os.environ['HOME'] = home0
        sb.close()


def strings(tier, sb):
    n = BOUNDS[tier]['atoms']
    for k in range(0, n + 1):
        for combo in itertools.product(ATOMS, repeat=k):
            yield ''.join(sb.atom(a) for a in combo), combo
    # strings of <= 3 atoms that hold at least one case-variant atom
    core = ['x', 'lib', '..', '/', '../', 'sub/']
    for k in range(1, 4):
        for combo in itertools.product((ATOMS if k < 3 else core) + CASE_ATOMS, repeat=k):
            if any(a in CASE_ATOMS for a in combo):
                yield ''.join(sb.atom(a) for a in combo), combo


def shards(tier, seed):
    n = 32 if tier == 'quick' else 96
    return [('strs', tier, k, n) for k in range(n)] + [('history',), ('odd-project-dirs',)]


def run_shard(item):
    res = ShardResult()
    if item[0] == 'odd-project-dirs':
        check_odd_project_dirs(res)
        res.sample({'project_dir': 'base/g?me', 'siblings_with_canaries': ['base/glibme', 'base/gxme', 'base/gme']})
        return res
    if item[0] == 'history':
        include_history(res)
        res.sample({'history': 'cart.p8 loaded from projA then projB (relative name), game.p8 under two HOME settings; all 24 orders'})
        return res
    _, tier, k, n = item
    sb = Sandbox()
    try:
        for i, (p, combo) in enumerate(strings(tier, sb)):
            if i % n != k:
                continue
            if '"' in p or '\n' in p:
                continue
            # require(): the include-only atom 'carts2/' adds nothing there
            if not any(a in combo for a in INCLUDE_ONLY):
                for lp in LOADPATHS:
                    check_require(sb, p, lp, res)
                # the other spellings of the call (string-call sugar, options table, inside an expression): every form for
                # short strings, one rotating form beyond
                if p and "'" not in p and ']]' not in p:
                    forms = FORMS[1:] if len(combo) <= 2 else [FORMS[1 + i % (len(FORMS) - 1)]]
                    for j, form in enumerate(forms):
                        for lp in (LOADPATHS if len(combo) <= 1 else [LOADPATHS[(i + j) % len(LOADPATHS)], 'default']):
                            check_require(sb, p, lp, res, form)
                if p and len(combo) <= 2:
                    for lp in ('default', 'init', 'absolute'):
                        check_require_nested(sb, p, lp, res)
                    check_require_nested(sb, p, 'default', res, FORMS[1 + i % (len(FORMS) - 1)])
            # #include: the path must be one \S+ token
            if p and ' ' not in p and not any(a in combo for a in REQUIRE_ONLY):
                for loc in CART_LOCS:
                    check_include(sb, p, loc, res)
        if k == 0:
            res.sample({'require': '../foobar/x', 'loadpath': 'default', 'include': '../foobar/x.lua',
                        'canaries': ['<SB>/x.lua', '<SB>/foobar/x.lua', '<SB>/abs/x.lua', 'carts2/x.lua']})
    finally:
        sb.close()
    return res


def replay(case):
    res = ShardResult()
    if case.get('kind') == 'include-history':
        include_history(res)
        return [(s, v[0]) for s, v in res.violations.items()]
    if case.get('kind') == 'odd-project-dir':
        check_odd_project_dirs(res)
        return [(s, v[0]) for s, v in res.violations.items()]
    sb = Sandbox()
    try:
        p = case['p']
        p = p.replace('<SB>', sb.root)
        if case['kind'] == 'require-nested':
            check_require_nested(sb, p, case['loadpath'], res, case.get('form', 'paren'))
        elif case['kind'] == 'require':
            check_require(sb, p, case['loadpath'], res, case.get('form', 'paren'))
        else:
            check_include(sb, p, case['loc'], res)
    finally:
        sb.close()
    return [(s, v[0]) for s, v in res.violations.items()]
