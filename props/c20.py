"""C20 — #include splices exactly the named file or cart tab at the include line.

All carts of <= N code lines over an alphabet of plain lines and #include lines (targets: .lua with / without
final newline, in a subdirectory, .p8 / .p8.png carts with 0-3 tab separators, tab selectors 0..tabs+1,
missing files, included carts that themselves contain #include lines), loaded with file.from_file from a
real directory; oracle = an independent splice of the same files.
"""
import os
import shutil
import tempfile

from lib import refcodec as rc
from lib.core import ShardResult

LEVEL = 'exploration'
RULE = ('every cart of <= N code lines over 30 line kinds (2 plain lines; includes of 3 .lua files incl. one without final '
        'newline and one in a subdirectory; whole .p8 carts with 0 and 2 tab separators; .p8:n and .p8.png:n for n in '
        '0..tabs+1; whole .p8.png; 2 missing targets); quick: N=2 over all kinds + N=3 over the 21 non-PNG kinds; '
        'thorough: N=3 over all + N=4 over non-PNG; non-trivial = cart with at least one #include line; distinct = '
        'distinct line sequence')
ASSUMPTIONS = ['expected code = byte concatenation of the spliced lines (an included file without final newline joins the '
               'next line, as a textual splice does)',
               'for .p8.png targets one extra trailing newline of the included code is tolerated (reader normalisation, C04)',
               'tab n of a cart = the lines between the n-th and (n+1)-th separator lines (a line reading exactly "-->8" up to its line end, LF or CR LF), 0-based as in picotool '
               'and the PICO-8 editor']
BOUNDS = {'quick': {'all_kinds_lines': 2, 'nonpng_lines': 3}, 'thorough': {'all_kinds_lines': 3, 'nonpng_lines': 4}}

# (a symbolic link inside the cart's directory to a file kept elsewhere is made by setup_dir: 'lnk.lua')
LINKED_LUA = b'linked=7\nlk=8\n'
LUA_FILES = {
    'inc.lua': b'la=1\nlb=2\n',
    'incn.lua': b'lc=3',
    'sub/s.lua': b'-- sub\nld=4\n',
    'nest.lua': b'#include inc.lua\nq=1\n',      # an include line inside an included file is not expanded
    # names with an extension-like piece before the real extension (Lua exported from a cart; a directory named like a
    # cart); 'plain.lua' exists, 'plain.lua.p8' does not
    'inc0.p8.lua': b'exported=1\n',
    'libs.p8/util.lua': b'indir=2\n',
    'plain.lua': b'pl=3\n',
    'a.lua.lua': b'dd=4\n',
    # files that contribute no line / one empty line
    'empty.lua': b'',
    # names with upper-case letters next to files that differ from them only in letter case
    'Util.lua': b'upper_u=1\n', 'util.lua': b'lower_u=2\n', 'Lib/Tools.lua': b'lt=3\n', 'lib/tools.lua': b'lt_lower=4\n', 'only.lua': b'only=5\n',
    # files with carriage returns (saved on Windows / old Mac; a CR LF inside a long string): spliced as they are
    'crlf.lua': b'wa=1\r\nwb=2\r\n',
    'cr.lua': b'ma=1\rmb=2\r',
    'crstr.lua': b's=[[a\r\nb\rc]]\nt=1\r\n',
    'nl.lua': b'\n',
    'sub/empty.lua': b'',
}
TAB = b'-->8\n'
CART_CODE = {
    'inc0': [b'p0=1\n', b'#include inc.lua\n', b'p1=2 g="\x8b\x10\x99\xff" -- \x80\x1f\n'],
    'inc2': [b't0a=1\n', b't0b=2\n', TAB, b't1a=3\n', b'#include inc.lua\n', TAB, b't2a=4\n'],
    'inc3e': [TAB, TAB, b'x3=1\n', TAB],       # empty tabs 0,1 and 3
    # 13 tabs (0..12): selectors with two digits
    'inc12': [ln for n in range(13) for ln in ([TAB] if n else []) + [b'm%d=%d\n' % (n, n)]],
    # code lines ending in CR LF (what `build --lua` makes of a .lua file saved with Windows line ends): the separator
    # line is then '-->8' CR LF
    'inc2crlf': [b'w0a=1\r\n', b'w0b=2\r\n', b'-->8\r\n', b'w1a=3\r\n', b'-->8\r\n', b'w2a=4\r\n', b'w2b=5\r\n'],
}
MANY_TAB_SELECTORS = [0, 1, 2, 9, 10, 11, 12, 13, 19, 20, 21, 99, 100, 101, 112]
P8_HEAD = b'pico-8 cartridge // http://www.pico-8.com\nversion 33\n'


def p8_text(code_lines):
    from pico8.lua import lua
    code = b''.join(code_lines)
    if any(c >= 0x80 or c < 0x20 and c not in (9, 10, 13) for c in code):
        code = lua.p8scii_to_unicode(code).encode('utf-8')      # glyph bytes are spelled in Unicode in a .p8 (C15)
    return P8_HEAD + b'__lua__\n' + code + b'__gfx__\n' + (b'0' * 128 + b'\n') * 2


def png_bytes(code_lines):
    mem = bytearray(0x8001)
    code = b''.join(code_lines)
    mem[0x4300:0x4300 + len(code)] = code
    mem[0x8000] = 33
    rows = [bytes(160 * 4)] * 205
    return rc.png_encode_rgba(160, 205, rc.stego_pack(bytes(mem), 160, 205, rows))


def tabs_of(code_lines):
    tabs = [[]]
    for ln in code_lines:
        if ln.rstrip(b'\r\n') == b'-->8':
            tabs.append([])
        else:
            tabs[-1].append(ln)
    return tabs


def line_kinds():
    kinds = [('plain', b'a=1\n'), ('plain', b'b=2 -- #include inc.lua\n')]
    kinds += [('lua', 'inc.lua'), ('lua', 'incn.lua'), ('lua', 'sub/s.lua'), ('lua', 'nest.lua'), ('lua', 'lnk.lua')]
    kinds += [('lua', 'empty.lua'), ('lua', 'nl.lua'), ('lua', 'sub/empty.lua')]
    kinds += [('lua', 'crlf.lua'), ('lua', 'cr.lua'), ('lua', 'crstr.lua')]
    kinds += [('lua', 'Util.lua'), ('lua', 'util.lua'), ('lua', 'Lib/Tools.lua'), ('lua', 'lib/tools.lua'), ('missing', 'ONLY.lua')]
    kinds += [('lua', 'inc0.p8.lua'), ('lua', 'libs.p8/util.lua'), ('lua', 'a.lua.lua'), ('missing', 'plain.lua.p8'), ('missing', 'inc.lua.lua')]
    kinds += [('p8', 'inc0', None), ('p8', 'inc2', None), ('p8', 'inc3e', None)]
    kinds += [('p8', 'inc2', n) for n in range(0, 5)]
    kinds += [('p8', 'inc0', n) for n in range(0, 2)]
    kinds += [('p8', 'inc3e', n) for n in range(0, 5)]
    kinds += [('missing', 'nothere.lua'), ('missing', 'sub/nothere.p8')]
    # two- and three-digit tab selectors are only run in the dedicated 'manytabs' family (keeps the product small)
    png = [('png', 'inc2', None), ('png', 'inc0', None)] + [('png', 'inc2', n) for n in range(0, 5)]
    return kinds, png


SPELLINGS = {
    # name: (prefix, separator after "#include", suffix before the line end, line end)
    'lead-space': (b' ', b' ', b'', b'\n'),
    'lead-tab': (b'\t', b' ', b'', b'\n'),
    'lead-spaces': (b'    ', b' ', b'', b'\n'),
    'two-spaces': (b'', b'  ', b'', b'\n'),
    'tab-separator': (b'', b'\t', b'', b'\n'),
    'trailing-space': (b'', b' ', b' ', b'\n'),
    'crlf': (b'', b' ', b'', b'\r\n'),
    'lead-tab-trailing-tab': (b'\t\t', b' ', b'\t', b'\n'),
}


def line_text(kind):
    if kind[0] == 'sp':
        pre, sep, suf, nl = SPELLINGS[kind[1]]
        std = line_text(kind[2])
        assert std.startswith(b'#include ') and std.endswith(b'\n')
        return pre + b'#include' + sep + std[len(b'#include '):-1] + suf + nl
    if kind[0] == 'plain':
        return kind[1]
    if kind[0] in ('lua', 'missing'):
        return b'#include ' + kind[1].encode() + b'\n'
    ext = b'.p8' if kind[0] == 'p8' else b'.p8.png'
    sel = b'' if kind[2] is None else b':%d' % kind[2]
    return b'#include ' + kind[1].encode() + ext + sel + b'\n'


def expected_lines(kind):
    """What the include line must be replaced with (None = load must fail)."""
    if kind[0] == 'sp':
        return expected_lines(kind[2])
    if kind[0] == 'plain':
        return [kind[1]], False
    if kind[0] == 'missing':
        return None, False
    if kind[0] == 'lua':
        data = LINKED_LUA if kind[1] == 'lnk.lua' else LUA_FILES[kind[1]]
        return [data], False
    code = CART_CODE[kind[1]]
    if kind[2] is None:
        return list(code), kind[0] == 'png'
    tabs = tabs_of(code)
    if kind[2] < len(tabs):
        return list(tabs[kind[2]]), kind[0] == 'png' and False
    return [], False


def setup_carts_dir():
    """The same files in a project folder below a PICO-8 carts folder (HOME is pointed at the scratch tree while
    loading); the carts folder itself holds decoys of the same names with other contents, and one file that exists
    only there. Returns (scratch root, home, project dir)."""
    top = tempfile.mkdtemp(prefix='c20h_')
    home = os.path.join(top, 'home')
    carts = os.path.join(home, '.lexaloffle', 'pico-8', 'carts')
    proj = os.path.join(carts, 'proj')
    os.makedirs(proj)
    d = setup_dir(proj)
    os.makedirs(os.path.join(carts, 'sub'), exist_ok=True)
    for name in LUA_FILES:
        os.makedirs(os.path.dirname(os.path.join(carts, name)), exist_ok=True)
        open(os.path.join(carts, name), 'wb').write(b'decoy=1\n')
    for name in CART_CODE:
        open(os.path.join(carts, name + '.p8'), 'wb').write(p8_text([b'decoy=2\n']))
        open(os.path.join(carts, name + '.p8.png'), 'wb').write(png_bytes([b'decoy=3\n']))
    open(os.path.join(carts, 'nothere.lua'), 'wb').write(b'rootonly=1\n')
    os.makedirs(os.path.join(carts, 'sub'), exist_ok=True)
    open(os.path.join(carts, 'sub', 'nothere.p8'), 'wb').write(p8_text([b'rootonly=2\n']))
    return top, home, d


def setup_dir(d=None):
    d = d or tempfile.mkdtemp(prefix='c20_')
    os.makedirs(os.path.join(d, 'sub'))
    for name, data in LUA_FILES.items():
        os.makedirs(os.path.dirname(os.path.join(d, name)), exist_ok=True)
        open(os.path.join(d, name), 'wb').write(data)
    store = tempfile.mkdtemp(prefix='c20store_')
    open(os.path.join(store, 'real.lua'), 'wb').write(LINKED_LUA)
    if not os.path.lexists(os.path.join(d, 'lnk.lua')):
        os.symlink(os.path.join(store, 'real.lua'), os.path.join(d, 'lnk.lua'))
    for name, code in CART_CODE.items():
        open(os.path.join(d, name + '.p8'), 'wb').write(p8_text(code))
        open(os.path.join(d, name + '.p8.png'), 'wb').write(png_bytes(code))
    return d


def kind_class(kind):
    if kind[0] == 'sp':
        return 'spelled-%s:%s' % (kind[1], kind_class(kind[2]))
    if kind[0] in ('p8', 'png'):
        return '%s:%s' % (kind[0], 'whole' if kind[2] is None else ('tab%d' % kind[2]))
    return kind[0] if kind[0] != 'lua' else 'lua:' + kind[1]


PATH_SPELLINGS = ['rel-dir', 'dot', 'bare', 'dotdot', 'updown', 'abs-dotdot', 'double-slash', 'symlink-dir', 'symlink-dir-rel']


def spelled_path(d, how):
    """(working directory, path argument) for the cart d/main.p8 named in another way."""
    parent, base = os.path.dirname(d), os.path.basename(d)
    if how.startswith('symlink-dir'):
        link = os.path.join(parent, 'lnk_' + base)
        if not os.path.islink(link):
            os.symlink(d, link)
        return (None, os.path.join(link, 'main.p8')) if how == 'symlink-dir' else (parent, 'lnk_' + base + '/main.p8')
    return {'rel-dir': (parent, os.path.join(base, 'main.p8')),
            'dot': (d, './main.p8'),
            'bare': (d, 'main.p8'),
            'dotdot': (os.path.join(d, 'sub'), '../main.p8'),
            'updown': (parent, base + '/sub/../main.p8'),
            'abs-dotdot': (None, d + '/sub/../main.p8'),
            'double-slash': (None, d + '//main.p8')}[how]


def check_cart(d, kinds, res, how=None, loc=None):
    from pico8.game import file as p8file
    res.evaluations += 1
    lines = [line_text(k) for k in kinds]
    case = {'lines': [l for l in lines], 'kinds': [kind_class(k) for k in kinds]}
    if loc:
        case['loc'] = loc
    if how:
        case['path_how'] = how
    if any(k[0] != 'plain' for k in kinds):
        res.nontriv(tuple(lines))
    path = os.path.join(d, 'main.p8')
    open(path, 'wb').write(p8_text(lines))
    want = []
    fail = False
    png_whole = False
    for k in kinds:
        el, pw = expected_lines(k)
        if el is None:
            fail = True
            break
        want += el
        png_whole = png_whole or pw
    cwd0 = os.getcwd()
    try:
        arg = path
        if how:
            cwd, arg = spelled_path(d, how)
            if cwd:
                os.chdir(cwd)
        g = p8file.from_file(arg)
        err = None
    except Exception as e:
        err = e
    finally:
        os.chdir(cwd0)
    if how and err is not None and not fail:
        res.violation('C20|load-raise|%s|path=%s' % (type(err).__name__, how),
                      'loading the cart %r through the path spelling %r (%s) raised %r; through its absolute path it loads' % (
                          lines, spelled_path(d, how)[1].replace(d, '<dir>'), how, err), case)
        return
    if fail:
        if err is None:
            res.violation('C20|missing-target-accepted', 'cart %r loads although an include target does not exist' % lines, case)
        else:
            res.outcome(('error',))
        return
    if err is not None:
        culprit = next((kind_class(k) for k in kinds if k[0] != 'plain'), 'plain')
        res.violation('C20|load-raise|%s|%s' % (type(err).__name__, culprit), 'loading cart %r raised %r' % (lines, err), case)
        return
    got = b''.join(g.lua.to_lines())
    exp = b''.join(want)
    ok = got == exp
    if not ok and any(k[0] == 'png' or (k[0] == 'sp' and k[2][0] == 'png') for k in kinds):
        # tolerate one extra trailing newline per included .p8.png code
        ok = tolerant_equal(got, kinds)
    if not ok:
        culprit = first_bad_kind(got, kinds)
        res.violation('C20|splice|%s' % culprit, 'cart lines %r load as %r, the splice of the files is %r' % (lines, got, exp), case)
        return
    res.outcome((len(kinds), sum(1 for k in kinds if k[0] != 'plain')))


def variants(kind):
    """Acceptable byte strings for one line. A .p8.png include whose selection reaches the end of the included code
    may carry one extra newline (the PNG reader appends one to raw code; C04 owns that normalisation)."""
    if kind[0] == 'sp':
        return variants(kind[2])
    el, _ = expected_lines(kind)
    base = b''.join(el)
    out = [base]
    if kind[0] == 'png':
        ntabs = len(tabs_of(CART_CODE[kind[1]]))
        if kind[2] is None or kind[2] == ntabs - 1:
            out.append(base + b'\n')
    return out


def tolerant_equal(got, kinds):
    def rec(pos, i):
        if i == len(kinds):
            return pos == len(got)
        for v in variants(kinds[i]):
            if got[pos:pos + len(v)] == v and rec(pos + len(v), i + 1):
                return True
        return False
    return rec(0, 0)


def first_bad_kind(got, kinds):
    """The first line whose replacement does not appear where it should."""
    def rec(pos, i):
        if i == len(kinds):
            return None if pos == len(got) else 'tail-after-' + kind_class(kinds[-1]) if kinds else 'empty'
        best = None
        for v in variants(kinds[i]):
            if got[pos:pos + len(v)] == v:
                r = rec(pos + len(v), i + 1)
                if r is None:
                    return None
                best = best or r
        return best or kind_class(kinds[i])
    return rec(0, 0) or 'unknown'


def sequences(tier):
    """Yields kind tuples: all kinds up to n1 lines, non-PNG kinds up to n2 lines."""
    import itertools
    base, png = line_kinds()
    n1 = BOUNDS[tier]['all_kinds_lines']
    n2 = BOUNDS[tier]['nonpng_lines']
    allk = base + png
    for n in range(0, n1 + 1):
        for seq in itertools.product(allk, repeat=n):
            yield seq
    for n in range(n1 + 1, n2 + 1):
        for seq in itertools.product(base, repeat=n):
            yield seq


def spelled_sequences(tier):
    """Every include kind in every spelling the recogniser accepts (blanks before `#include`, blanks / TAB after it,
    trailing blanks, CR LF), alone, between plain lines, and next to another (differently spelled) include."""
    base, png = line_kinds()
    plain = base[0]
    incs = [k for k in base + png if k[0] != 'plain']
    names = sorted(SPELLINGS)
    for i, k in enumerate(incs):
        for j, sp in enumerate(names):
            sk = ('sp', sp, k)
            yield (sk,)
            yield (plain, sk, plain)
            other = ('sp', names[(j + 3) % len(names)], incs[(i + 5) % len(incs)])
            yield (sk, other)
            if tier == 'thorough':
                yield (other, plain, sk)
                yield (('lua', 'inc.lua'), sk)


def manytab_sequences(tier):
    """Selectors with more than one digit on a cart with 13 tabs, .p8 and .p8.png, alone and between plain lines."""
    plain = ('plain', b'a=1\n')
    for fmt in ('p8', 'png'):
        for n in MANY_TAB_SELECTORS:
            k = (fmt, 'inc12', n)
            yield (k,)
            yield (plain, k, plain)
            yield (k, (fmt, 'inc12', MANY_TAB_SELECTORS[(MANY_TAB_SELECTORS.index(n) + 4) % len(MANY_TAB_SELECTORS)]))
        yield ((fmt, 'inc12', None),)
    # separator lines with a CR LF line end (.p8 only: the .p8.png reader turns CR into a blank, C04)
    for n in (None, 0, 1, 2, 3, 4):
        k = ('p8', 'inc2crlf', n)
        yield (k,)
        yield (plain, k, plain)
        yield (k, ('p8', 'inc2', 1))


def path_sequences(tier):
    """Every include kind alone (and between plain lines in the thorough tier): loaded through every path spelling."""
    base, png = line_kinds()
    plain = base[0]
    for k in base + png:
        if k[0] == 'plain':
            continue
        yield (k,)
        if tier == 'thorough':
            yield (plain, k, plain)


def shards(tier, seed):
    n = 32 if tier == 'quick' else 128
    return [('paths', tier, k, 4) for k in range(4)] + [('cartsroot', tier, k, 2) for k in range(2)] + [('seqs', tier, k, n) for k in range(n)] + [('resave',)] + [('spelled', tier, k, 4) for k in range(4)] + [('manytabs', tier, 0, 1)]


def resave_history(res):
    """The include targets are re-saved with new contents between two loads in one process."""
    from pico8.game import file as p8file
    d = setup_dir()
    try:
        main = os.path.join(d, 'main.p8')
        open(main, 'wb').write(p8_text([b'#include inc.lua\n', b'#include inc2.p8:1\n', b'#include inc0.p8.png\n', b'z=1\n']))
        versions = [
            (LUA_FILES['inc.lua'], CART_CODE['inc2'], CART_CODE['inc0']),
            (b'new=1\n', [b'n0=1\n', TAB, b'n1=2\n', TAB, b'n2=3\n'], [b'q=9\n']),
            (b'third=3\nthird2=4\n', [b'm0=1\n', TAB, b'm1=5\n'], [b'r=7\n', b'r2=8\n']),
        ]
        for step, (lua, c2, c0) in enumerate(versions):
            open(os.path.join(d, 'inc.lua'), 'wb').write(lua)
            open(os.path.join(d, 'inc2.p8'), 'wb').write(p8_text(c2))
            open(os.path.join(d, 'inc0.p8.png'), 'wb').write(png_bytes(c0))
            res.evaluations += 1
            res.nontriv(('resave', step))
            case = {'resave': step}
            try:
                got = b''.join(p8file.from_file(main).lua.to_lines())
            except Exception as e:
                res.violation('C20|resave|raise|%s' % type(e).__name__, 'load %d raised %r' % (step, e), case)
                return
            want = lua + b''.join(tabs_of(c2)[1]) + b''.join(c0)
            if got not in (want + b'z=1\n', want + b'\nz=1\n'):
                res.violation('C20|resave|stale|step%d' % step,
                              'after re-saving the include targets, the cart loads as %r, the files now splice to %r' % (
                                  got, want + b'z=1\n'), case)
                return
            res.outcome(('resave', step))
    finally:
        shutil.rmtree(d, ignore_errors=True)


def run_shard(item):
    res = ShardResult()
    if item[0] == 'resave':
        resave_history(res)
        res.sample({'history': 'load; re-save inc.lua, inc2.p8, inc0.p8.png with new code; load again (x3)'})
        return res
    kind_, tier, k, n = item
    if kind_ == 'cartsroot':
        top, home, d = setup_carts_dir()
        old_home = os.environ.get('HOME')
        os.environ['HOME'] = home
        try:
            for i, seq in enumerate(path_sequences('thorough')):
                if i % n == k:
                    check_cart(d, seq, res, loc='cartsroot')
            if k == 0:
                res.sample({'cartsroot': 'cart in $HOME/.lexaloffle/pico-8/carts/proj/, decoys of every target one level up'})
        finally:
            if old_home is None:
                os.environ.pop('HOME', None)
            else:
                os.environ['HOME'] = old_home
            shutil.rmtree(top, ignore_errors=True)
        return res
    d = setup_dir()
    try:
        if kind_ == 'paths':
            for i, seq in enumerate(path_sequences(tier)):
                if i % n != k:
                    continue
                for how in PATH_SPELLINGS:
                    check_cart(d, seq, res, how=how)
            if k == 0:
                res.sample({'paths': 'cart named as proj/main.p8, ./main.p8, main.p8, ../main.p8, proj/sub/../main.p8, ...'})
            return res
        for i, seq in enumerate(spelled_sequences(tier) if kind_ == 'spelled' else manytab_sequences(tier) if kind_ == 'manytabs' else sequences(tier)):
            if i % n != k:
                continue
            check_cart(d, seq, res)
        if k == 0:
            res.sample({'cart_lines': [b'a=1\n', b'#include inc2.p8:1\n', b'#include incn.lua\n', b'b=2\n'],
                        'inc2.p8 code': CART_CODE['inc2'], 'incn.lua': LUA_FILES['incn.lua']})
    finally:
        shutil.rmtree(d, ignore_errors=True)
    return res


def replay(case):
    res = ShardResult()
    if 'resave' in case:
        resave_history(res)
        return [(s, v[0]) for s, v in res.violations.items()]
    base, png = line_kinds()
    allk = base + png
    allk = allk + [(f, 'inc12', n) for f in ('p8', 'png') for n in MANY_TAB_SELECTORS + [None]]
    allk = allk + [('p8', 'inc2crlf', n) for n in (None, 0, 1, 2, 3, 4)]
    by_text = {line_text(k): k for k in allk}
    for k in allk:
        if k[0] != 'plain':
            for sp in SPELLINGS:
                by_text[line_text(('sp', sp, k))] = ('sp', sp, k)
    kinds = [by_text[l] for l in case['lines']]
    if case.get('loc') == 'cartsroot':
        top, home, d = setup_carts_dir()
        old_home = os.environ.get('HOME')
        os.environ['HOME'] = home
        try:
            check_cart(d, kinds, res, loc='cartsroot')
        finally:
            if old_home is None:
                os.environ.pop('HOME', None)
            else:
                os.environ['HOME'] = old_home
            shutil.rmtree(top, ignore_errors=True)
        return [(s, v[0]) for s, v in res.violations.items()]
    d = setup_dir()
    try:
        check_cart(d, kinds, res, how=case.get('path_how'))
    finally:
        shutil.rmtree(d, ignore_errors=True)
    return [(s, v[0]) for s, v in res.violations.items()]
