"""C02 — luamin renaming is a consistent injection that respects reserved names.

(S) Explicit-state BFS on the real MinifyNameFactory: state = (name map, next id); operation =
get_short_name(n) over an alphabet forced to collide with would-be generated names and reserved names;
all keep-files over a 6-name universe x {keep_all on/off}; invariant after every transition against a
dict+sets reference model.  (E) every short-name id in a bounded exhaustive range; a long allocation run.
(P) the C01 program space: the identifier alignment between input and output must be a function and
injective, kept names fixed; CLI flags.
"""
import collections
import itertools
import os
import tempfile

from lib import luagen as L
from lib import reflex
from lib.core import ShardResult, h64
from props import c01, c08

LEVEL = 'model_checking'
RULE = ('BFS over get_short_name call sequences on the real MinifyNameFactory: 13-name alphabet (would-be generated '
        'names a,b,c,ba; reserved t, self, _init, ?, \\x8b; keyword-like end_; plain foo, x1, zz) to depth D (quick 5, '
        'thorough 6) x all 64 keep-files over {a,b,ba,foo,t,zz} x keep_all in {0,1}, state = (name map, next id) '
        'deduplicated; _name_for_id for every id below 26^3+26^2 (thorough 26^4); allocation of 20 000 fresh names; '
        'program level: identifier alignment on the C08 program space under 3 configurations; non-trivial = a '
        'transition that allocates a new short name or returns a kept name; distinct = distinct (config, history)')
ASSUMPTIONS = ['"PICO-8 API/callback names" = the frozen snapshot BUILTINS_SNAPSHOT below (documented API list); names '
               'the implementation reserves in addition are accepted as kept',
               'reference model: a dict plus the keyword / builtin / keep sets',
               'program-level alignment uses the reference lexer; fields, methods, labels and gotos go through one map']
BOUNDS = {'quick': {'depth': 5, 'ids': 26 ** 3 + 26 ** 2, 'alloc': 20000},
          'thorough': {'depth': 6, 'ids': 26 ** 4, 'alloc': 20000}}

KEYWORDS = sorted(reflex.KEYWORDS)
# frozen snapshot of the documented PICO-8 API / callbacks (so that deleting an entry from picotool's list is caught)
BUILTINS_SNAPSHOT = [b'load', b'save', b'folder', b'dir', b'ls', b'run', b'stop', b'resume', b'reboot', b'info', b'flip',
                     b'printh', b'time', b't', b'stat', b'extcmd', b'_update', b'_draw', b'_init', b'_update60', b'clip',
                     b'pget', b'pset', b'sget', b'sset', b'fget', b'fset', b'print', b'cursor', b'color', b'cls', b'camera',
                     b'circ', b'circfill', b'oval', b'ovalfill', b'line', b'rect', b'rectfill', b'pal', b'palt', b'spr',
                     b'sspr', b'fillp', b'add', b'del', b'deli', b'count', b'all', b'foreach', b'pairs', b'btn', b'btnp',
                     b'sfx', b'music', b'mget', b'mset', b'map', b'tline', b'peek', b'poke', b'peek2', b'poke2', b'peek4',
                     b'poke4', b'memcpy', b'reload', b'cstore', b'memset', b'max', b'min', b'mid', b'flr', b'ceil', b'cos',
                     b'sin', b'atan2', b'sqrt', b'abs', b'rnd', b'srand', b'band', b'bor', b'bxor', b'bnot', b'rotl', b'rotr',
                     b'shl', b'shr', b'lshr', b'menuitem', b'tostr', b'tonum', b'chr', b'ord', b'sub', b'split', b'type',
                     b'cartdata', b'dget', b'dset', b'serial', b'setmetatable', b'getmetatable', b'rawget', b'rawset',
                     b'rawequal', b'rawlen', b'cocreate', b'coresume', b'costatus', b'yield', b'assert', b'sgn', b'?',
                     b'mapdraw', b'self', b'__index', b'\x83', b'\x8b', b'\x8e', b'\x91', b'\x94', b'\x97']

ALPHABET = [b'a', b'b', b'c', b'ba', b't', b'x1', b'foo', b'self', b'_init', b'?', b'end_', b'\x8b', b'zz']
KEEP_UNIVERSE = [b'a', b'b', b'ba', b'foo', b't', b'zz']


def factory_cls():
    from pico8.lua import lua
    return lua.MinifyNameFactory


def reserved_now():
    """What the implementation reserves today (may be a superset of the snapshot)."""
    return set(factory_cls().PRESERVED_NAMES)


_tmpfiles = {}


def keep_path(names):
    key = tuple(names)
    if key not in _tmpfiles:
        fd, path = tempfile.mkstemp(prefix='c02_keep_')
        os.write(fd, b''.join(n + b'\n' for n in names))
        os.close(fd)
        _tmpfiles[key] = path
        import atexit
        atexit.register(lambda p=path: os.path.exists(p) and os.unlink(p))
    return _tmpfiles[key]


def new_factory(keep, keep_all):
    F = factory_cls()
    return F(keep_all_names=keep_all, keep_names_from_file=keep_path(keep) if keep else None)


def check_history(keep, keep_all, hist, res, observe=True):
    """Replays a call history on a fresh real factory; checks the invariant after every call.
    Returns (ok, state_key)."""
    F = factory_cls()
    try:
        f = new_factory(keep, keep_all)
    except Exception as e:
        res.violation('C02|factory|init-raise|%s' % type(e).__name__, 'MinifyNameFactory(%r) raised %r' % (keep, e),
                      {'keep': list(keep), 'keep_all': keep_all, 'hist': list(hist)})
        return False, None
    reserved = set(KEYWORDS) | set(BUILTINS_SNAPSHOT)
    extra_reserved = reserved_now()
    keepset = set(keep)
    model = {}
    case = {'keep': list(keep), 'keep_all': keep_all, 'hist': list(hist)}
    for step, name in enumerate(hist):
        try:
            got = f.get_short_name(name)
        except Exception as e:
            res.violation('C02|factory|raise|%s' % type(e).__name__, 'get_short_name(%r) raised %r' % (name, e), case)
            return False, None
        last = step == len(hist) - 1
        must_keep = keep_all or name in reserved or name in keepset
        if must_keep:
            if got != name:
                what = 'keep-all' if keep_all else ('keep-file' if name in keepset else
                                                    ('keyword' if name in KEYWORDS else 'builtin'))
                res.violation('C02|factory|not-kept|%s' % what,
                              'get_short_name(%r) = %r but the name must be left as written (%s)' % (name, got, what), case)
                return False, None
        else:
            if name in extra_reserved:
                # reserved by the implementation beyond the snapshot: accepted as kept
                if got != name:
                    pass
            if name in model and model[name] != got:
                res.violation('C02|factory|not-a-function', '%r mapped to %r earlier and to %r now' % (name, model[name], got), case)
                return False, None
        model[name] = got
        # injective over everything returned so far
        inv = {}
        for k, v in model.items():
            if v in inv and inv[v] != k:
                kinds = sorted(['kept' if (keep_all or x in reserved or x in keepset or model[x] == x) else 'renamed'
                                for x in (k, inv[v])])
                res.violation('C02|factory|collision|%s' % '+'.join(kinds),
                              '%r and %r both map to %r (keep file %r)' % (inv[v], k, v, sorted(keepset)), case)
                return False, None
            inv[v] = k
        # a generated name is never reserved / kept
        if not must_keep and got != name or (not must_keep and got == name and name not in extra_reserved):
            gen = got
            if gen in reserved or gen in keepset:
                res.violation('C02|factory|generated-reserved|%s' % ('keep-file' if gen in keepset else 'reserved'),
                              'generated name %r for %r is a keyword / API name / kept name' % (gen, name), case)
                return False, None
            if not (gen.isalpha() and gen.islower()) and got != name:
                res.violation('C02|factory|generated-shape', 'generated name %r is not [a-z]+' % gen, case)
                return False, None
    # canonical state for de-duplication: the factory's own name map when it is a plain dict (full content, so merged
    # states have the same futures); otherwise no merging at all (the history itself is the state)
    nm = getattr(f, '_name_map', None)
    if isinstance(nm, dict):
        key = (tuple(sorted(nm.items())), getattr(f, '_next_name_id', None))
    else:
        key = ('history', tuple(hist))
    return True, key


def bfs(keep, keep_all, depth, res):
    seen = set()
    frontier = collections.deque([()])
    ok, k0 = check_history(keep, keep_all, (), res)
    seen.add(k0)
    res.states += 1
    while frontier:
        hist = frontier.popleft()
        if len(hist) >= depth:
            continue
        for name in ALPHABET:
            h2 = hist + (name,)
            res.transitions += 1
            res.evaluations += 1
            ok, key = check_history(keep, keep_all, h2, res)
            if not ok:
                continue
            res.nontriv((tuple(keep), keep_all, h2))
            res.outcome((len(key[0]), key[1]))
            if key not in seen:
                seen.add(key)
                res.states += 1
                frontier.append(h2)


def check_ids(lo, hi, res):
    F = factory_cls()
    names = {}
    for i in range(lo, hi):
        res.evaluations += 1
        try:
            n = F._name_for_id(i)
        except Exception as e:
            res.violation('C02|ids|raise|%s' % type(e).__name__, '_name_for_id(%d) raised %r' % (i, e), {'id': i})
            return
        if not (n.isalpha() and n.islower()):
            res.violation('C02|ids|shape', '_name_for_id(%d) = %r is not [a-z]+' % (i, n), {'id': i})
            return
        names[i] = n
    res.count('ids_checked', hi - lo)
    return names


def successors_of_reserved(limit):
    """Names generated right after a reserved short name (keep-files built from them exercise the interplay of the
    two skip rules), plus runs of consecutive names."""
    F = factory_cls()
    reserved = set(KEYWORDS) | set(BUILTINS_SNAPSHOT)
    out = []
    for i in range(limit):
        if F._name_for_id(i) in reserved:
            out.append(F._name_for_id(i + 1))
            out.append(F._name_for_id(i + 2))
    return sorted(set(out) - reserved)


def check_casing(res):
    """Names that differ only in letter case, in every order of arrival, with and without a keep file."""
    groups = [[b'foo', b'Foo', b'FOO', b'fOO'], [b'x', b'X'], [b'zz', b'Zz', b'ZZ'], [b'a', b'A'], [b'print', b'Print', b'PRINT'],
              [b'end_', b'End_', b'END_'], [b'self', b'Self']]
    for keep in ([], [b'zz', b'foo'], [b'ZZ', b'A']):
        for g in groups:
            for order in itertools.permutations(g):
                f = new_factory(keep, False)
                res.evaluations += 1
                got = {}
                for n_ in order:
                    got[n_] = f.get_short_name(n_)
                again = {n_: f.get_short_name(n_) for n_ in order}
                case = {'keep': keep, 'keep_all': False, 'hist': list(order)}
                if again != got:
                    res.violation('C02|casing|not-a-function', 'second lookup differs for %r' % (order,), case)
                elif len(set(got.values())) != len(got):
                    res.violation('C02|casing|collision', 'names differing only in letter case share an output name: %r (keep file %r)' % (
                        got, keep), case)
                else:
                    bad = [n_ for n_ in order if n_ in keep and got[n_] != n_]
                    if bad:
                        res.violation('C02|casing|not-kept', 'kept name %r became %r' % (bad[0], got[bad[0]]), case)
                    else:
                        res.nontriv(('casing', tuple(keep), order))


def check_alloc(n, res, keep=None):
    """n fresh names in sequence: injective, none reserved."""
    keep = [b'a', b'ba', b'zz'] if keep is None else keep
    f = new_factory(keep, False)
    reserved = set(KEYWORDS) | set(BUILTINS_SNAPSHOT) | set(keep)
    keepset = set(keep)
    out = {}
    for i in range(n):
        name = b'v%d_' % i
        res.evaluations += 1
        g = f.get_short_name(name)
        if g in reserved:
            res.violation('C02|alloc|generated-reserved|%s' % ('keep-file' if g in keepset else 'reserved'),
                          'allocation %d returned the reserved/kept name %r' % (i, g), {'alloc': i})
            return
        if g in out:
            res.violation('C02|alloc|collision', 'allocations %d and %d both returned %r' % (out[g], i, g), {'alloc': i})
            return
        out[g] = i
    res.count('allocations', n)
    res.nontriv(('alloc', n))


# ---------------------------------------------------------------- program level
def align(insig, outsig):
    """Pairs of (input identifier, output identifier) in token order; labels included by the reference lexer."""
    return [(a.text, b.text) for a, b in zip(insig, outsig) if a.kind == 'name' and b.kind == 'name']


def check_program_map(prog, src, config, res, fam, out=None):
    res.evaluations += 1
    case = {'src': src, 'config': config, 'family': fam}
    if out is None:
        try:
            obj, out = c01.minify(src, config)
        except Exception:
            return
    try:
        insig = reflex.significant(reflex.lex(src))
        outsig = reflex.significant(reflex.lex(out))
    except reflex.Reject:
        return
    if [c01.cmp_key(t) for t in insig] != [c01.cmp_key(t) for t in outsig]:
        return          # C01's business
    pairs = align(insig, outsig)
    if len(set(p[0] for p in pairs)) >= 2:
        res.nontriv((src, config))
    reserved = set(KEYWORDS) | set(BUILTINS_SNAPSHOT)
    keepset = set(n.strip() for n in c01.KEEP_FILE_NAMES if n.strip() and not n.strip().startswith(b'#')) \
        if config == 'keep_file' else set()
    fwd, bwd = {}, {}
    for a, b in pairs:
        if a in fwd and fwd[a] != b:
            res.violation('C02|program|not-a-function|%s' % config,
                          'luamin(%r) = %r: %r became %r and %r' % (src, out, a, fwd[a], b), case)
            return
        fwd[a] = b
        if b in bwd and bwd[b] != a:
            kinds = sorted(['kept' if fwd.get(x) == x else 'renamed' for x in (a, bwd[b])])
            res.violation('C02|program|collision|%s|%s' % ('+'.join(kinds), config),
                          'luamin(%r, %s) = %r: %r and %r both became %r' % (src, config, out, bwd[b], a, b), case)
            return
        bwd[b] = a
        must_keep = config == 'keep_all' or a in reserved or a in keepset
        if must_keep and a != b:
            res.violation('C02|program|not-kept|%s' % config, 'luamin(%r, %s) = %r: %r must stay as written, became %r' % (
                src, config, out, a, b), case)
            return
        if not must_keep and b != a and (b in reserved or b in keepset or b in reflex.KEYWORDS):
            res.violation('C02|program|generated-reserved|%s' % config,
                          'luamin(%r, %s) = %r: generated name %r is reserved/kept' % (src, config, out, b), case)
            return
    res.outcome((config, len(fwd)))


EXTRA_PROGRAMS = [b'a=1 b=2 c=a+b\n', b'foo=1 a=foo b=a\n', b'zz=1 x=zz a=x\n', b'e1=1 q=e1 a=q b=a\n',
                  b'function o:m(p) self.f=p return o.f end\n', b'::top:: goto top\n', b'local t={x=1,y=2} t.x=t.y print(t.x)\n',
                  b'x.a=1 y.a=2 a=3\n', b'for i=1,2 do local j=i i=j end\n',
                  # identifiers that differ only in letter case are different identifiers
                  b'Player=1 player=2 PLAYER=3 q=Player+player+PLAYER\n', b'X=1 x=2 q=X-x\n', b'MAX_HP=9 max_hp=1 Max_Hp=2 q=MAX_HP+max_hp+Max_Hp\n',
                  b'::Top:: goto Top ::top:: goto top\n', b'o.Hp=1 o.hp=2 o:Get() o:get()\n', b'Print=1 print(Print) PRINT=2 print(PRINT)\n',
                  b'function f(A,a) return A+a end\n'] + \
                 [b' '.join(b'v%d=%d' % (i, i) for i in range(n)) + b'\n' for n in (27, 60, 800)]


LATE_NAMES = [bytes([c]) for c in range(ord('a'), ord('z') + 1)] + [b'aa', b'ab', b'az', b'ba', b'bb', b'zz', b'za', b'aaa', b'a_', b'_a']


def population_programs():
    """Identifier populations in which names that look like generated short names are first met after K other names
    (K around every point where the generated names grow by a letter or wrap: 26, 52, 26+26^2 ...), as globals, as
    fields and as locals/labels; every name is used again later so that 'same name, same output' is observable."""
    out = []
    for K in (0, 5, 23, 24, 25, 26, 27, 51, 52, 675, 676, 677, 701, 702, 703, 727):
        for order in (0, 1):
            late = LATE_NAMES if order == 0 else LATE_NAMES[::-1]
            fill = [b'v%d_' % i for i in range(K)]
            parts = [b'%s=%d' % (n, i) for i, n in enumerate(fill)]
            parts += [b'%s=%d' % (n, i) for i, n in enumerate(late)]
            parts += [b'q_=%s+%s' % (late[i], late[-1 - i]) for i in range(0, len(late), 3)]
            if K:
                parts.append(b'q_=%s+%s' % (fill[0], fill[-1]))
            out.append(b' '.join(parts) + b'\n')
            if K in (0, 25, 26, 676, 702):
                # the same populations as table fields / method names and as a label with its goto
                fparts = [b'%s=%d' % (n, i) for i, n in enumerate(fill)]
                fparts += [b'o_.%s=%d' % (n, i) for i, n in enumerate(late)]
                fparts += [b'q_=o_.%s q_=o_:%s()' % (late[i], late[-1 - i]) for i in range(0, len(late), 4)]
                fparts += [b'::%s:: goto %s' % (late[order], late[order])]
                out.append(b' '.join(fparts) + b'\n')
    return out


def keepfile_history(res):
    """One keep-file PATH whose content changes between runs of one process (edited between two `luamin` runs of a
    watch script; the same relative name in two projects): every run must honour the file as it is NOW."""
    import shutil
    from pico8 import tool
    from pico8.game import file as p8file
    from lib import carts
    lua = c01.lua_mod()
    d = tempfile.mkdtemp(prefix='c02kf_')
    cwd0 = os.getcwd()
    try:
        src = b'score=1 lives=2 xpos=3 b=4 hp=score+lives+xpos+b\n'
        contents = [[b'score', b'b'], [b'lives'], [b'xpos', b'a', b'c'], [], [b'score', b'b']]
        kf = os.path.join(d, 'keep.txt')
        for step, names in enumerate(contents):
            open(kf, 'wb').write(b'\n'.join(names) + b'\n')
            for how in ('library', 'cli', 'cli-relative'):
                res.evaluations += 1
                case = {'keepfile_history': step, 'how': how}
                try:
                    if how == 'library':
                        obj = lua.Lua.from_lines([src], version=8)
                        out = b''.join(obj.to_lines(writer_cls=lua.LuaMinifyTokenWriter, writer_args={'keep_names_from_file': kf}))
                    else:
                        cart = os.path.join(d, 'c%d.p8' % step)
                        p8file.to_file(carts.make_game({}, version=33, code_lines=[src]), cart)
                        if how == 'cli-relative':
                            os.chdir(d)
                            rc_ = tool.main(['luamin', '--keep-names-from-file', 'keep.txt', 'c%d.p8' % step])
                            os.chdir(cwd0)
                        else:
                            rc_ = tool.main(['luamin', '--keep-names-from-file', kf, cart])
                        out = b''.join(p8file.from_file(os.path.join(d, 'c%d_fmt.p8' % step)).lua.to_lines())
                except Exception as e:
                    os.chdir(cwd0)
                    res.violation('C02|keepfile-history|raise|%s' % type(e).__name__, 'run %d (%s) raised %r' % (step, how, e), case)
                    continue
                pairs = align(reflex.significant(reflex.lex(src)), reflex.significant(reflex.lex(out)))
                fwd = dict(pairs)
                bad_kept = [n_ for n_ in names if n_ in fwd and fwd[n_] != n_]
                gen = [v for k, v in fwd.items() if v != k and v in names]
                if bad_kept:
                    res.violation('C02|keepfile-history|not-kept', 'run %d (%s): the keep file now lists %r but %r became %r (it was not listed in an '
                                  'earlier run of this process)' % (step, how, names, bad_kept[0], fwd[bad_kept[0]]), case)
                elif gen:
                    res.violation('C02|keepfile-history|generated-kept', 'run %d (%s): generated name %r is listed in the keep file as it is now (%r)' % (
                        step, how, gen[0], names), case)
                elif len(set(fwd.values())) != len(fwd):
                    res.violation('C02|keepfile-history|collision', 'run %d (%s): %r' % (step, how, fwd), case)
                else:
                    res.nontriv(('keepfile-history', step, how))
    finally:
        os.chdir(cwd0)
        shutil.rmtree(d, ignore_errors=True)


def cli_batch(res):
    """The same map properties on what `p8tool luamin` / `p8tool build --lua-minify` write, per configuration."""
    import shutil
    from pico8 import tool
    from pico8.game import file as p8file
    from lib import carts
    d = tempfile.mkdtemp(prefix='c02_')
    try:
        n = 0
        for src in EXTRA_PROGRAMS[:9]:
            # (the two options together, in either order: every name is kept - the keep file cannot take that back)
            for config in c01.CONFIGS + ['keep_all+file', 'file+keep_all']:
                n += 1
                flags = {'default': [], 'keep_all': ['--keep-all-names'],
                         'keep_file': ['--keep-names-from-file', c01.keep_file_path()],
                         'keep_all+file': ['--keep-all-names', '--keep-names-from-file', c01.keep_file_path()],
                         'file+keep_all': ['--keep-names-from-file', c01.keep_file_path(), '--keep-all-names']}[config]
                both = config not in c01.CONFIGS
                path = os.path.join(d, 'm%d.p8' % n)
                luaf = os.path.join(d, 'b%d.lua' % n)
                open(luaf, 'wb').write(src)
                outp = os.path.join(d, 'b%d.p8' % n)
                pathpng = os.path.join(d, 'm%d.p8.png' % n)
                try:
                    p8file.to_file(carts.make_game({}, version=33, code_lines=[src]), path)
                    p8file.to_file(carts.make_game({}, version=33, code_lines=[src]), pathpng)
                except Exception as e:
                    res.evaluations += 1
                    res.violation('C02|cli|input-cart-raise|%s' % type(e).__name__, 'the valid program %r cannot be saved as a cart: %r' % (src, e),
                                  {'src': src, 'config': config, 'cli': 'luamin'})
                    continue
                outpng = os.path.join(d, 'b%d.p8.png' % n)
                for what, args, result in (('luamin', ['luamin'] + flags + [path], os.path.join(d, 'm%d_fmt.p8' % n)),
                                           ('build', ['build', outp, '--lua', luaf, '--lua-minify'] + flags, outp),
                                           ('luamin-png', ['luamin'] + flags + [pathpng], os.path.join(d, 'm%d_fmt.p8.png' % n)),
                                           ('build-png', ['build', outpng, '--lua', luaf, '--lua-minify'] + flags, outpng)):
                    try:
                        rc_ = tool.main(args)
                        code = b''.join(p8file.from_file(result).lua.to_lines())
                    except Exception as e:
                        res.violation('C02|cli|%s|raise|%s' % (what, type(e).__name__), 'p8tool %s on %r raised %r' % (what, src, e),
                                      {'cli': what, 'src': src, 'config': config})
                        continue
                    r = ShardResult()
                    check_program_map(None, src, 'keep_all' if both else config, r, 'cli-' + what, out=code)
                    for sig, v in r.violations.items():
                        res.violation(sig.replace('C02|program|', 'C02|cli-%s|' % what, 1) + ('|both-options' if both else ''),
                                      v[0] + ' [via p8tool %s %s]' % (what, ' '.join(f for f in flags if f.startswith('--'))),
                                      {'cli': what, 'src': src, 'config': config})
                    r.violations = {}
                    res.merge(r)
    finally:
        shutil.rmtree(d, ignore_errors=True)


def shards(tier, seed):
    items = []
    keeps = []
    for r in range(len(KEEP_UNIVERSE) + 1):
        for comb in itertools.combinations(KEEP_UNIVERSE, r):
            keeps.append(list(comb))
    for ki in range(len(keeps)):
        items.append(('bfs', tier, ki, False))
    items.append(('bfs', tier, 0, True))
    items += [('population', k, 4) for k in range(4)]
    items.append(('bfs', tier, 7, True))
    nid = BOUNDS[tier]['ids']
    step = (nid + 15) // 16
    items += [('ids', lo, min(nid, lo + step)) for lo in range(0, nid, step)]
    items.append(('alloc', BOUNDS[tier]['alloc']))
    items.append(('extra',))
    items.append(('cli',))
    items += c08.program_shards(tier, seed, tag='c02')
    return items


def all_keeps():
    keeps = []
    for r in range(len(KEEP_UNIVERSE) + 1):
        for comb in itertools.combinations(KEEP_UNIVERSE, r):
            keeps.append(list(comb))
    return keeps


def run_shard(item):
    res = ShardResult()
    kind = item[0]
    if kind == 'bfs':
        _, tier, ki, keep_all = item
        keep = all_keeps()[ki]
        bfs(keep, keep_all, BOUNDS[tier]['depth'], res)
        if ki == 5:
            res.sample({'keep_file': keep, 'keep_all': keep_all, 'history': [b'foo', b'a', b'ba', b'foo']})
    elif kind == 'ids':
        names = check_ids(item[1], item[2], res)
        if names is not None:
            # distinctness inside the range and against the range start is checked by the merged set below
            res.sets['id_names'] = set(names.values())
            if len(set(names.values())) != len(names):
                res.violation('C02|ids|duplicate', '_name_for_id is not injective on [%d,%d)' % (item[1], item[2]),
                              {'id': item[1]})
            res.nontriv(('ids', item[1]))
    elif kind == 'alloc':
        # every keyword and every documented API / callback name is a fixed point (default and keep-file configs)
        for keep in ([], [b'zz']):
            f = new_factory(keep, False)
            f.get_short_name(b'warmup')
            for name in KEYWORDS + BUILTINS_SNAPSHOT:
                res.evaluations += 1
                got = f.get_short_name(name)
                if got != name:
                    res.violation('C02|factory|not-kept|%s' % ('keyword' if name in KEYWORDS else 'builtin'),
                                  'get_short_name(%r) = %r: keywords and PICO-8 API names must be left as written' % (name, got),
                                  {'keep': keep, 'keep_all': False, 'hist': [b'warmup', name]})
                    break
        check_alloc(item[1], res)
        check_alloc(item[1], res, keep=successors_of_reserved(26 ** 3))
        check_casing(res)
    elif kind == 'cli':
        keepfile_history(res)
        cli_batch(res)
        res.sample({'cli': 'p8tool luamin / build --lua-minify x {default, --keep-all-names, --keep-names-from-file}'})
    elif kind == 'population':
        for i, src in enumerate(population_programs()):
            if i % item[2] != item[1]:
                continue
            for cfg in c01.CONFIGS:
                check_program_map(None, src, cfg, res, 'population')
            res.count('population_programs')
        res.sample({'population': 'v0_..v{K-1}_ then a..z, aa, ab, az, ba, bb, zz, za, aaa, a_, _a for K around 26, 52, 702', 'K': 26})
    elif kind == 'extra':
        for src in EXTRA_PROGRAMS:
            for cfg in c01.CONFIGS:
                check_program_map(None, src, cfg, res, 'extra')
        res.sample({'program': EXTRA_PROGRAMS[1], 'config': 'keep_file', 'keep_file': c01.KEEP_FILE_NAMES})
    elif kind == 'programs':
        _, tag, tier, fam, k, n = item
        seen = set()
        for prog in c08.programs(tier, fam, k, n):
            if isinstance(prog, tuple):
                continue
            src = L.assemble(prog, {})
            hk = h64(src)
            if hk in seen:
                continue
            seen.add(hk)
            for cfg in c01.CONFIGS:
                check_program_map(prog, src, cfg, res, fam)
    return res


def finalize(total):
    want = total.extra.get('ids_checked', 0)
    have = len(total.sets.get('id_names', ()))
    if want and have != want:
        total.violations['C02|ids|duplicate'] = ('_name_for_id produced %d distinct names for %d ids' % (have, want),
                                                 {'id': 0}, 0)


def replay(case):
    res = ShardResult()
    if 'keepfile_history' in case:
        keepfile_history(res)
    elif 'cli' in case:
        cli_batch(res)
    elif 'hist' in case:
        check_history(case['keep'], case['keep_all'], tuple(case['hist']), res)
    elif 'src' in case:
        check_program_map(None, case['src'], case['config'], res, case.get('family', 'extra'))
    elif 'alloc' in case:
        check_alloc(20000, res)
    elif 'id' in case:
        names = check_ids(0, 26 ** 3 + 26 ** 2, res)
        if names is not None and len(set(names.values())) != len(names):
            seen = {}
            for i in sorted(names):
                if names[i] in seen:
                    res.violation('C02|ids|duplicate', '_name_for_id(%d) and _name_for_id(%d) are both %r' % (
                        seen[names[i]], i, names[i]), {'id': i})
                    break
                seen[names[i]] = i
    return [(s, v[0]) for s, v in res.violations.items()]
