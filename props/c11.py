"""C11 — a failed cart write never damages the file already at the destination.

Fault-point enumeration: for every configuration (format x destination state x Lua writer x entry point)
one clean run counts the observable steps of every failure source (chunks yielded by the Lua writer over
both passes, lines of each section encoder, the PNG encoder call, writes on the encoder's output stream,
the sanity re-parse); then one run per (source, k) injects a fault at step k, for ALL k.  Oracle: the call
fails and the destination's bytes (or absence) and the directory listing are unchanged.
"""
import contextlib
import os
import shutil
import tempfile

from lib import carts
from lib import refcodec as rc
from lib.core import ShardResult

LEVEL = 'fault_enumeration'
RULE = ('configurations: entry {file.to_file, p8tool luafmt [--overwrite], p8tool luamin, p8tool writep8, p8tool build} x format {.p8, .p8.png} x '
        'destination {absent, present} x Lua writer {echo, token minifier, formatter} (quick: 9 configurations, thorough: '
        'all 23); failure sources: k-th chunk of the Lua writer (all passes), k-th line/call of each of the 5 section '
        'encoders and the label, the PNG encoder call, k-th write on the stream handed to the format encoder, unparsable '
        'transformed code; every k from 1 to the count measured in the clean run; non-trivial = injected run in which '
        'the fault fired; distinct = distinct (configuration, source, k)')
ASSUMPTIONS = ['an I/O error while copying the finished staging file to the destination is outside the statement',
               'faults are injected by wrapping picotool classes from the harness (no source hooks)',
               'for .p8.png no re-parse of transformed code exists, so "unparsable code" is only required to leave the '
               'destination intact if the call fails']
BOUNDS = {'quick': {'configurations': 9}, 'thorough': {'configurations': 23}}


class InjectedFault(Exception):
    pass


# the kind of exception a failing step raises: the property speaks of any failure, and handlers written for one
# family of exceptions (an I/O fallback, say) must not turn another step's failure into a damaged destination
EXC_KINDS = {
    'InjectedFault': lambda k: InjectedFault('injected at step %d' % k),
    'OSError': lambda k: OSError(28, 'No space left on device (injected at step %d)' % k),
    'FileNotFoundError': lambda k: FileNotFoundError(2, 'No such file or directory (injected at step %d)' % k),
    'ValueError': lambda k: ValueError('injected at step %d' % k),
    'MemoryError': lambda k: MemoryError('injected at step %d' % k),
    # not Exception subclasses: Ctrl-C while a slow write runs (tool.main turns it into return code 1), sys.exit in a hook
    'KeyboardInterrupt': lambda k: KeyboardInterrupt('injected at step %d' % k),
    'SystemExit': lambda k: SystemExit('injected at step %d' % k),
}


class Counter(object):
    def __init__(self, k, exc='InjectedFault'):
        self.k = k          # None = just count
        self.n = 0
        self.fired = False
        self.exc = exc

    def step(self):
        self.n += 1
        if self.k is not None and self.n == self.k:
            self.fired = True
            raise EXC_KINDS[self.exc](self.k)


def mods():
    from pico8.lua import lua
    from pico8.gfx.gfx import Gfx
    from pico8.gff.gff import Gff
    from pico8.map.map import Map
    from pico8.sfx.sfx import Sfx
    from pico8.music.music import Music
    from pico8.game.formatter.p8 import P8Formatter
    from pico8.game.formatter.p8png import P8PNGFormatter
    return dict(lua=lua, gfx=Gfx, gff=Gff, map=Map, sfx=Sfx, music=Music, P8=P8Formatter, PNG=P8PNGFormatter)


WRITERS = {'echo': 'LuaEchoWriter', 'minify': 'LuaMinifyTokenWriter', 'format': 'LuaFormatterWriter'}


@contextlib.contextmanager
def inject(source, counter, writer):
    """Patches one failure source; every observable step calls counter.step()."""
    m = mods()
    undo = []

    def patch(obj, name, new):
        old = obj.__dict__[name] if name in obj.__dict__ else None
        undo.append((obj, name, old, getattr(obj, name)))
        setattr(obj, name, new)
    try:
        if source in ('lua-writer', 'sanity'):
            cls = getattr(m['lua'], WRITERS[writer])
            # the formatter inherits to_lines from LuaASTEchoWriter: patch on the concrete class
            orig = cls.to_lines

            def to_lines(self, _orig=orig):
                for chunk in _orig(self):
                    if source == 'lua-writer':
                        counter.step()
                    yield chunk
                if source == 'sanity':
                    counter.n += 1
                    counter.fired = True
                    yield b'\nx="unterminated\n'
            patch(cls, 'to_lines', to_lines)
        elif source.startswith('section:'):
            name = source.split(':')[1]
            cls = m[name if name != 'label' else 'gfx']
            orig_lines = cls.to_lines
            orig_bytes = cls.to_bytes

            def to_lines(self, _orig=orig_lines):
                for ln in _orig(self):
                    if bool(getattr(self, '_c11_is_label', False)) == (name == 'label'):
                        counter.step()
                    yield ln

            def to_bytes(self, _orig=orig_bytes):
                counter.step()
                return _orig(self)
            patch(cls, 'to_lines', to_lines)
            patch(cls, 'to_bytes', to_bytes)
        elif source == 'png-encoder':
            import png
            orig = png.Writer.write

            def write(self, outfile, rows, _orig=orig):
                counter.step()
                return _orig(self, outfile, rows)
            patch(png.Writer, 'write', write)
        elif source == 'tempfile-create':
            # the staging file cannot be created (no usable temporary directory, no space left)
            import tempfile as _tf
            orig = _tf.TemporaryFile

            def temporary_file(*a, _orig=orig, **k):
                counter.step()
                return _orig(*a, **k)
            patch(_tf, 'TemporaryFile', temporary_file)
        elif source == 'stream-seek':
            # a buffered staging file reports a write error late - when it is rewound (its buffer is flushed then):
            # the rewind must have happened before the destination is opened for writing
            import tempfile as _tf
            orig = _tf.TemporaryFile

            def temporary_file(*a, _orig=orig, **k):
                return _SeekProxy(_orig(*a, **k), counter)
            patch(_tf, 'TemporaryFile', temporary_file)
        elif source == 'stream-write':
            for key in ('P8', 'PNG'):
                cls = m[key]
                orig = cls.__dict__['to_file'].__func__

                def to_file(c, game, outstr, *a, _orig=orig, **k):
                    return _orig(c, game, _Proxy(outstr, counter), *a, **k)
                patch(cls, 'to_file', classmethod(to_file))
        yield
    finally:
        for obj, name, old, _ in reversed(undo):
            if old is None:
                try:
                    delattr(obj, name)
                except AttributeError:
                    pass
            else:
                setattr(obj, name, old)


class _SeekProxy(object):
    def __init__(self, real, counter):
        self._real = real
        self._counter = counter

    def seek(self, *a):
        self._counter.step()
        return self._real.seek(*a)

    def __enter__(self):
        self._real.__enter__()
        return self

    def __exit__(self, *exc):
        return self._real.__exit__(*exc)

    def __getattr__(self, name):
        return getattr(self._real, name)


class _Proxy(object):
    def __init__(self, real, counter):
        self._real = real
        self._counter = counter

    def write(self, data):
        self._counter.step()
        return self._real.write(data)

    def __getattr__(self, name):
        return getattr(self._real, name)


CODE = (b'-- title\n-- author\nfunction _init()\n x = 1\n if (x) y = 2\nend\nfunction _update()\n x += 1 -- c\nend\n'
        b'print("done") t = {1, 2, a = 3}\n')


CLI_REWRITERS = ('luafmt', 'luamin', 'writep8')


def sources_for(fmt):
    s = ['lua-writer', 'sanity', 'stream-write', 'stream-seek', 'tempfile-create']
    s += ['section:' + n for n in ('gfx', 'gff', 'map', 'sfx', 'music')]
    if fmt == 'p8':
        s.append('section:label')
    else:
        s.append('png-encoder')
    return s


def configurations(tier):
    cfgs = []
    for fmt in ('p8', 'png'):
        for dest in ('absent', 'present'):
            for w in ('echo', 'minify', 'format'):
                cfgs.append(('to_file', fmt, dest, w))
    cfgs.append(('luafmt', 'p8', 'overwrite', 'format'))
    cfgs.append(('luafmt', 'png', 'absent', 'format'))
    cfgs.append(('luafmt', 'png', 'present', 'format'))
    cfgs.append(('luafmt', 'p8', 'absent', 'format'))
    cfgs.append(('luafmt', 'p8', 'present', 'format'))
    # the other CLI commands that write carts (they write <name>_fmt.<ext> next to the input)
    for cmd, w in (('writep8', 'echo'), ('luamin', 'minify')):
        for fmt in ('p8', 'png'):
            for dest in ('absent', 'present'):
                cfgs.append((cmd, fmt, dest, w))
    for fmt in ('p8', 'png'):
        for dest in ('absent', 'present'):
            for w in ('echo', 'minify'):
                cfgs.append(('build', fmt, dest, w))
    # a zero-byte file at the destination
    empties = [('to_file', 'p8', 'empty', 'minify'), ('to_file', 'png', 'empty', 'echo'), ('luamin', 'p8', 'empty', 'minify'),
               ('writep8', 'png', 'empty', 'echo'), ('build', 'p8', 'empty', 'echo'), ('luafmt', 'p8', 'empty', 'format')]
    # the same under --debug and at the default verbosity (what is logged may not change what is written)
    verbose = [('to_file', 'p8', 'present', 'minify', 'debug'), ('to_file', 'png', 'present', 'echo', 'debug'),
               ('to_file', 'p8', 'absent', 'format', 'debug'), ('luamin', 'p8', 'present', 'minify', 'debug'),
               ('build', 'png', 'absent', 'minify', 'debug'), ('luafmt', 'p8', 'overwrite', 'format', 'debug'),
               ('to_file', 'png', 'absent', 'minify', 'normal'), ('writep8', 'p8', 'present', 'echo', 'normal')]
    if tier == 'quick':
        verbose = verbose[:4]
    cfgs += verbose
    cfgs += [e + ('quiet',) for e in (empties[:3] if tier == 'quick' else empties)]
    if tier == 'quick':
        keep = [('to_file', 'p8', 'present', 'format'), ('to_file', 'png', 'present', 'minify'),
                ('to_file', 'p8', 'absent', 'minify'), ('to_file', 'png', 'absent', 'echo'),
                ('luafmt', 'p8', 'overwrite', 'format'), ('luafmt', 'png', 'present', 'format'),
                ('writep8', 'p8', 'present', 'echo'), ('writep8', 'p8', 'absent', 'echo'), ('writep8', 'png', 'present', 'echo'),
                ('luamin', 'p8', 'present', 'minify'), ('luamin', 'png', 'absent', 'minify'),
                ('build', 'p8', 'present', 'minify'), ('build', 'png', 'present', 'echo'), ('build', 'p8', 'absent', 'echo')]
        cfgs = [c for c in cfgs if c in keep or len(c) > 4]
    return cfgs


class Env(object):
    """Real files for one configuration."""

    def __init__(self, cfg):
        self.cfg = cfg
        entry, fmt, dest, writer = cfg[:4]
        self.d = tempfile.mkdtemp(prefix='c11_')
        ext = '.p8' if fmt == 'p8' else '.p8.png'
        self.fills = carts.region_fills(1, 5)
        self.old_fills = carts.region_fills(2, 6)
        from props import c13
        old_p8 = c13.ref_p8(self.old_fills, b'-- old\nold=1\n', label=carts.rot_region(0x2000, 9))
        old_png = c13.ref_png(self.old_fills, b'-- old\nold=1\n', c13.label_rows())
        self.old = old_p8 if fmt == 'p8' else old_png
        if entry == 'to_file':
            self.dest = os.path.join(self.d, 'cart' + ext)
            self.labelsrc = os.path.join(self.d, 'labelsrc.png')
            open(self.labelsrc, 'wb').write(c13.ref_png(carts.region_fills(0, 1), b'-- l\n', c13.label_rows()))
        elif entry in CLI_REWRITERS:
            self.src = os.path.join(self.d, 'in' + ext)
            src_bytes = c13.ref_p8(self.fills, CODE, label=carts.rot_region(0x2000, 3)) if fmt == 'p8' else \
                c13.ref_png(self.fills, CODE, c13.label_rows())
            open(self.src, 'wb').write(src_bytes)
            if dest == 'overwrite':
                self.dest = self.src
                self.old = src_bytes
            else:
                self.dest = os.path.join(self.d, 'in_fmt' + ext)
        else:
            self.dest = os.path.join(self.d, 'out' + ext)
            self.lua = os.path.join(self.d, 'code.lua')
            open(self.lua, 'wb').write(CODE)
            self.gfxsrc = os.path.join(self.d, 'gfxsrc.p8')
            open(self.gfxsrc, 'wb').write(c13.ref_p8(self.fills, b'x=1\n'))
        if dest == 'empty':
            # a file of zero bytes at the destination (touch; the leftover of an interrupted tool)
            self.old = b''
        self.reset()

    def reset(self):
        entry, fmt, dest, writer = self.cfg[:4]
        if dest == 'absent':
            if os.path.exists(self.dest):
                os.unlink(self.dest)
            self.before = None
        else:
            open(self.dest, 'wb').write(self.old)
            self.before = self.old
        self.listing = sorted(os.listdir(self.d))

    def run(self):
        """Performs the write; returns (failed, exception-or-returncode)."""
        from pico8 import tool
        from pico8.game import file as p8file
        m = mods()
        entry, fmt, dest, writer = self.cfg[:4]
        # fifth element of a configuration: the tool's verbosity (--debug / default / --quiet); messages go nowhere
        verb = self.cfg[4] if len(self.cfg) > 4 else 'quiet'
        from pico8 import util
        old_verb = util._verbosity
        cli_flag = {'debug': ['--debug'], 'quiet': ['--quiet'], 'normal': []}[verb]
        util.set_verbosity({'debug': util.VERBOSITY_DEBUG, 'quiet': util.VERBOSITY_QUIET, 'normal': util.VERBOSITY_NORMAL}[verb])
        try:
            return self._run(m, entry, fmt, dest, writer, cli_flag, tool, p8file)
        finally:
            util.set_verbosity(old_verb)

    def _run(self, m, entry, fmt, dest, writer, cli_flag, tool, p8file):
        try:
            if entry == 'to_file':
                g = carts.make_game(self.fills, version=33, code_lines=[CODE],
                                    label=carts.rot_region(0x2000, 3) if fmt == 'p8' else None)
                if g.label is not None:
                    g.label._c11_is_label = True
                wcls = getattr(m['lua'], WRITERS[writer])
                wargs = {'indentwidth': 2} if writer == 'format' else None
                kw = {}
                if dest == 'present':
                    # the label picture named explicitly, as another file (the library-only argument of to_file)
                    kw['label_fname'] = self.labelsrc
                p8file.to_file(g, self.dest, lua_writer_cls=None if writer == 'echo' else wcls, lua_writer_args=wargs, **kw)
                return False, None
            if entry in CLI_REWRITERS:
                args = cli_flag + [entry] + (['--overwrite'] if dest == 'overwrite' else []) + [self.src]
                rcode = tool.main(args)
                return rcode != 0, rcode
            args = cli_flag + ['build', self.dest, '--lua', self.lua, '--gfx', self.gfxsrc]
            if writer == 'minify':
                args.append('--lua-minify')
            rcode = tool.main(args)
            return rcode != 0, rcode
        except BaseException as e:
            if isinstance(e, (KeyboardInterrupt,)) and 'injected' not in str(e):
                raise
            return True, e

    def close(self):
        shutil.rmtree(self.d, ignore_errors=True)


def label_marking():
    """Gfx objects created by the readers for labels must be recognisable: mark by identity at write time."""
    m = mods()
    P8 = m['P8']
    orig = P8.__dict__['to_file'].__func__

    def to_file(c, game, outstr, *a, **k):
        if getattr(game, 'label', None) is not None:
            try:
                game.label._c11_is_label = True
            except Exception:
                pass
        return orig(c, game, outstr, *a, **k)
    return P8, classmethod(to_file), P8.__dict__['to_file']


def run_config_source(cfg, source, res):
    entry, fmt, dest, writer = cfg[:4]
    env = Env(cfg)
    P8, marked, original = label_marking()
    P8.to_file = marked
    try:
        # clean counting run
        c0 = Counter(None)
        with inject(source if source != 'sanity' else 'lua-writer', c0, writer):
            failed, info = env.run()
        clean_bytes = open(env.dest, 'rb').read() if os.path.exists(env.dest) else None
        res.evaluations += 1
        case0 = {'cfg': list(cfg), 'source': source, 'k': 0}
        if failed and dest == 'empty':
            # an empty file is not a cart: a command that reads its destination first (label source, build's OUT) may
            # refuse - and then the empty file is still there
            after = open(env.dest, 'rb').read() if os.path.exists(env.dest) else None
            if after != b'' or sorted(os.listdir(env.d)) != env.listing:
                res.violation('C11|destination-%s|%s|%s|refused-empty-destination' % ('deleted' if after is None else 'overwritten', entry, fmt),
                              '%r refused the zero-byte destination (%r) but did not leave it as it was' % (cfg, info), case0)
            else:
                res.outcome((entry, fmt, 'refused-empty'))
            return
        if failed:
            res.violation('C11|clean-run-fails|%s|%s' % (entry, fmt), 'the unfaulted write %r failed: %r' % (cfg, info), case0)
            return
        n = c0.n if source != 'sanity' else 1
        res.count('steps_counted', n)
        res.cover('config_source', (cfg, source))
        if source != 'sanity' and n == 0:
            res.count('source_not_exercised')
            return
        plan = [(k, 'InjectedFault') for k in range(1, n + 1)]
        if source != 'sanity':
            plan += [(k, exc) for exc in ('OSError', 'FileNotFoundError', 'ValueError', 'MemoryError', 'KeyboardInterrupt', 'SystemExit')
                     for k in sorted({1, (n + 1) // 2, n})]
        for k, exc in plan:
            env.reset()
            ck = Counter(k, exc)
            with inject(source, ck, writer):
                failed, info = env.run()
            res.evaluations += 1
            res.transitions += 1
            case = {'cfg': list(cfg), 'source': source, 'k': k, 'exc': exc}
            source_tag = source if exc == 'InjectedFault' else source + '|exc=' + exc
            if not ck.fired:
                res.count('fault_did_not_fire')
                continue
            res.nontriv((cfg, source, k, exc))
            after = open(env.dest, 'rb').read() if os.path.exists(env.dest) else None
            listing = sorted(os.listdir(env.d))
            if source == 'sanity' and not failed:
                if fmt == 'p8':
                    res.violation('C11|unparsable-code-written|%s|%s' % (entry, writer),
                                  'transformed code that does not re-parse was written to %s without error' % env.dest, case)
                continue
            if not failed:
                if after == clean_bytes and listing == sorted(set(env.listing) | {os.path.basename(env.dest)}):
                    res.outcome((entry, fmt, 'recovered'))     # the call coped with the fault and wrote the complete cart
                    continue
                res.violation('C11|fault-swallowed|%s|%s|%s' % (entry, fmt, source_tag),
                              '%r: a fault (%s) in %s at step %d did not make the call fail, and the destination is not the '
                              'cart a clean run writes' % (cfg, exc, source, k), case)
                continue
            if after != env.before:
                what = 'created' if env.before is None else ('deleted' if after is None else (
                    'truncated' if len(after) < len(env.before) else 'overwritten'))
                res.violation('C11|destination-%s|%s|%s|%s' % (what, entry, fmt, source_tag),
                              '%r: %s failed (%s) at step %d/%d and the destination was %s (%s -> %s bytes)' % (
                                  cfg, source, exc, k, n, what, None if env.before is None else len(env.before),
                                  None if after is None else len(after)), case)
                continue
            if listing != env.listing:
                res.violation('C11|stray-files|%s|%s|%s' % (entry, fmt, source_tag),
                              '%r: %s failed at step %d and left files %r' % (cfg, source, k, sorted(set(listing) - set(env.listing))),
                              case)
                continue
            res.outcome((entry, fmt, source.split(':')[0]))
        # history: after all those failed attempts, an unfaulted write must still give the clean result
        env.reset()
        failed, info = env.run()
        res.evaluations += 1
        after = open(env.dest, 'rb').read() if os.path.exists(env.dest) else None
        if failed or after != clean_bytes:
            res.violation('C11|write-after-failures|%s|%s' % (entry, fmt),
                          '%r: after the injected failures of %s an unfaulted write %s' % (
                              cfg, source, 'fails: %r' % (info,) if failed else 'produces a different file than before'),
                          {'cfg': list(cfg), 'source': source, 'k': -1})
    finally:
        P8.to_file = original
        env.close()


def check_oversize(res):
    """Failure source 'the code does not fit the .p8.png code area' - raised by the encoder itself, in both storage
    variants (text that compresses / text that does not), through to_file and `p8tool build`, destination absent /
    present: the call fails and the destination (and its directory) is as before."""
    from pico8 import tool
    from pico8.game import file as p8file
    from props import c13
    v, body = 7, bytearray()
    while len(body) < 30000:
        v = (v * 1103515245 + 12345) & 0x7fffffff
        line = bytearray()
        for i in range(60):
            v = (v * 1103515245 + 12345) & 0x7fffffff
            line.append(65 + (v >> 16) % 26)
        body += b'D="' + bytes(line) + b'"\n'
    texts = {'incompressible': bytes(body), 'compressible': b''.join(b'x%d=%d*%d+%d\n' % (i, i * 7, i + 3, i * i) for i in range(3200))}
    for variant, code in texts.items():
        for entry in ('to_file', 'build'):
            for dest in ('absent', 'present', 'empty'):
                d = tempfile.mkdtemp(prefix='c11big_')
                try:
                    out = os.path.join(d, 'out.p8.png')
                    before = None
                    if dest == 'present':
                        before = c13.ref_png(carts.region_fills(2, 6), b'-- old\nold=1\n', c13.label_rows())
                    elif dest == 'empty':
                        before = b''
                    if before is not None:
                        open(out, 'wb').write(before)
                    big = os.path.join(d, 'big.lua')
                    open(big, 'wb').write(code)
                    listing = sorted(os.listdir(d))
                    res.evaluations += 1
                    res.transitions += 1
                    res.nontriv(('oversize', variant, entry, dest))
                    case = {'oversize': True, 'variant': variant, 'entry': entry, 'dest': dest}
                    try:
                        if entry == 'to_file':
                            g = carts.make_game(carts.region_fills(1, 5), version=33, code_lines=[code])
                            p8file.to_file(g, out)
                            failed = False
                        else:
                            failed = tool.main(['--quiet', 'build', out, '--lua', big]) != 0
                    except BaseException as e:
                        if isinstance(e, KeyboardInterrupt):
                            raise
                        failed = True
                    after = open(out, 'rb').read() if os.path.exists(out) else None
                    if not failed:
                        res.violation('C11|oversize-accepted|%s|%s' % (entry, variant),
                                      '%s of %d bytes of %s code to a .p8.png returned normally (destination %s -> %s bytes)' % (
                                          entry, len(code), variant, None if before is None else len(before), None if after is None else len(after)), case)
                    elif after != before:
                        res.violation('C11|destination-%s|%s|png|code-too-large|%s' % ('created' if before is None else 'deleted' if after is None else 'overwritten', entry, variant),
                                      '%s failed (code too large, %s) and the %s destination was changed' % (entry, variant, dest), case)
                    elif sorted(os.listdir(d)) != listing:
                        res.violation('C11|stray-files|%s|png|code-too-large' % entry, '%s failed and left files %r' % (
                            entry, sorted(set(os.listdir(d)) - set(listing))), case)
                    else:
                        res.outcome((entry, 'png', 'code-too-large', variant))
                finally:
                    shutil.rmtree(d, ignore_errors=True)


def shards(tier, seed):
    items = [('oversize',)]
    for cfg in configurations(tier):
        for source in sources_for(cfg[1]):
            items.append(('cs', cfg, source))
    items.sort(key=lambda it: 0 if len(it) > 2 and it[2] in ('stream-write', 'section:gfx', 'section:label') else 1)
    return items


def run_shard(item):
    res = ShardResult()
    if item[0] == 'oversize':
        check_oversize(res)
        res.sample({'oversize': 'to_file / build of 30 000 bytes of incompressible code to a .p8.png'})
        return res
    _, cfg, source = item
    run_config_source(tuple(cfg), source, res)
    if source == 'stream-write' and cfg[0] == 'to_file':
        res.sample({'configuration': list(cfg), 'source': source, 'k': 'every write index of the encoder stream'})
    return res


def replay(case):
    res = ShardResult()
    if case.get('oversize'):
        check_oversize(res)
        return [(s, v[0]) for s, v in res.violations.items()]
    run_config_source(tuple(case['cfg']), case['source'], res)
    return [(s, v[0]) for s, v in res.violations.items()]
