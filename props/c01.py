"""C01 — luamin keeps the program: same tokens modulo renaming, nothing glued.

The program space of C08 (statement kinds x deviations, statement pairs, nesting, and above all one witness
for EVERY grammar-adjacent pair of terminal classes with EVERY legal separator in the gap between the two)
x {default, keep_all_names, keep_names_from_file} through the real LuaMinifyTokenWriter.  The writer's state
machine (last-was-word, last-was-newline, header-comment count, seen-code) is observed on the real object after
every chunk it yields.  Oracle: the output lexes (reference lexer) to the input's significant tokens
(numbers by value, strings by decoded bytes, identifiers by kind), line-scoped constructs end where they
ended, token count unchanged.  A batch goes through `p8tool luamin` and `build --lua-minify`.
"""
import os
import shutil
import tempfile

from lib import luagen as L
from lib import reflex
from lib import core
from lib.core import ShardResult, h64
from props import c08

LEVEL = 'model_checking'
RULE = ('programs: C08 space (stat <= D deviations, seq, nest, ADJ pair witnesses x every legal separator in the pair '
        'gap, default/tight/one-deviation layouts) x 3 configurations; states = distinct states of the real '
        'LuaMinifyTokenWriter observed after each yielded chunk, transitions = distinct (state, token class, next state); '
        'non-trivial = program with >= 4 significant tokens; distinct = distinct (source, configuration)')
ASSUMPTIONS = ['reference lexer decides token identity; identifiers are compared by kind here and by mapping in C02',
               'newlines outside line-scoped constructs are not compared (the property does not require them)',
               'dialect exclusions of DESIGN 2.1']
BOUNDS = {'quick': {'deviations': 1, 'configs': 3}, 'thorough': {'deviations': 2, 'configs': 3}}

KEEP_FILE_NAMES = [b'a', b'e1', b'zz', b'# comment', b'', b'  b1  ']
CONFIGS = ['default', 'keep_all', 'keep_file']


def lua_mod():
    from pico8.lua import lua
    return lua


_keepfile = []


def keep_file_path():
    if not _keepfile:
        fd, path = tempfile.mkstemp(prefix='c01_keep_', suffix='.txt')
        os.write(fd, b'\n'.join(KEEP_FILE_NAMES) + b'\n')
        os.close(fd)
        _keepfile.append(path)
        import atexit
        atexit.register(lambda: os.path.exists(path) and os.unlink(path))
    return _keepfile[0]


def writer_args(config):
    if config == 'default':
        return {}
    if config == 'keep_all':
        return {'keep_all_names': True}
    return {'keep_names_from_file': keep_file_path()}


def tok_input_class(t):
    from pico8.lua import lexer
    for cls, name in ((lexer.TokComment, 'comment'), (lexer.TokSpace, 'space'), (lexer.TokNewline, 'newline'),
                      (lexer.TokLabel, 'label'), (lexer.TokKeyword, 'keyword'), (lexer.TokNumber, 'number'),
                      (lexer.TokString, 'string'), (lexer.TokName, 'name')):
        if isinstance(t, cls):
            return name
    d = t._data
    if d in (b']', b')', b'}'):
        return 'close-bracket'
    return 'symbol'


def minify(src, config, res=None, chunks=None, obj=None):
    """Runs the real token minifier; records the writer's state machine when res is given.
    `obj` = an already loaded Lua object for the same source (the three configurations share one load)."""
    lua = lua_mod()
    if obj is None:
        obj = lua.Lua.from_lines(chunks or [src], version=core.lua_version(src))
    w = lua.LuaMinifyTokenWriter(tokens=obj.tokens, root=obj.root, args=writer_args(config))
    gen = w.to_lines()
    out = []

    def state():
        loc = gen.gi_frame.f_locals if gen.gi_frame is not None else {}
        return (getattr(w, '_last_was_name_keyword_number', None), getattr(w, '_last_was_newline', None),
                loc.get('seen_header_comments'), loc.get('seen_non_comment_token'))
    prev = (getattr(w, '_last_was_name_keyword_number', None), getattr(w, '_last_was_newline', None), 0, False)
    for chunk in gen:
        out.append(chunk)
        if res is not None:
            st = state()
            loc = gen.gi_frame.f_locals if gen.gi_frame is not None else {}
            tk = loc.get('token')
            cls = tok_input_class(tk) if tk is not None else '?'
            res.cover('writer_states', st)
            res.cover('writer_transitions', (prev, cls, st))
            prev = st
    return obj, b''.join(out)


def cmp_key(t):
    if t.kind == 'name':
        return ('name',)
    return reflex.sig_key(t)


def describe_fusion(insig, outsig, i):
    """Names the two input tokens that fused (for the signature)."""
    a = insig[i] if i < len(insig) else None
    b = insig[i + 1] if i + 1 < len(insig) else None
    return '%s|%s' % (c08_cls(a), c08_cls(b))


def c08_cls(t):
    if t is None:
        return 'end'
    if t.kind in ('keyword', 'symbol'):
        return t.text.decode('latin-1')
    if t.kind == 'number':
        from props.c07 import num_class
        return 'number:' + num_class(t.text)
    if t.kind == 'string':
        return 'string:' + ('long' if t.level is not None else 'quoted')
    return t.kind


def check_minified(prog, src, config, res, fam, obj, out, light=False):
    """The C01 oracle on one (source, configuration, output)."""
    lua = lua_mod()
    case = {'src': src, 'config': config, 'family': fam}
    try:
        intoks = reflex.lex(src)
    except reflex.Reject:
        res.count('rejected_by_reference')
        return None
    insig = reflex.significant(intoks)
    try:
        # the minifier decides anew which tokens touch: its output must lex under stock Lua numerals as well (no numeral
        # written directly against '..'), unless the input itself already relied on PICO-8's reading of that form
        try:
            reflex.lex(src, numeral_concat=False)
            strict = True
        except reflex.Reject:
            strict = False
        outtoks = reflex.lex(out, numeral_concat=not strict)
    except reflex.Reject as e:
        # find the pair that fused: first position where the output cannot be re-lexed
        res.violation('C01|output-unlexable|%s' % fused_pair(insig, out), 'luamin(%r) = %r does not lex: %s' % (src, out, e), case)
        return None
    outsig = reflex.significant(outtoks)
    a = [cmp_key(t) for t in insig]
    b = [cmp_key(t) for t in outsig]
    if a != b:
        i = next((i for i in range(min(len(a), len(b))) if a[i] != b[i]), min(len(a), len(b)))
        res.violation('C01|glue|%s' % describe_fusion(insig, outsig, i),
                      'luamin(%r) = %r: token %d lexes as %r, input has %r (%d vs %d tokens)' % (
                          src, out, i, outsig[i].text if i < len(outsig) else None,
                          insig[i].text if i < len(insig) else None, len(outsig), len(insig)), case)
        return None
    # "identifiers differing at most by the renaming": one consistent, injective map per program
    fwd, bwd = {}, {}
    for x, y in zip(insig, outsig):
        if x.kind != 'name':
            continue
        if fwd.setdefault(x.text, y.text) != y.text:
            res.violation('C01|renaming-not-a-function|%s' % config, 'luamin(%r, %s) = %r: %r became both %r and %r' % (
                src, config, out, x.text, fwd[x.text], y.text), case)
            return None
        if bwd.setdefault(y.text, x.text) != x.text:
            res.violation('C01|renaming-merges-identifiers|%s' % config,
                          'luamin(%r, %s) = %r: the different identifiers %r and %r both became %r' % (
                              src, config, out, bwd[y.text], x.text, y.text), case)
            return None
    # later comments may be dropped but comments never appear from code: every output comment is an input comment
    incom = [t.text for t in intoks if t.kind == 'comment']
    for t in outtoks:
        if t.kind == 'comment' and t.text not in incom:
            res.violation('C01|code-became-comment', 'luamin(%r) = %r: %r is not a comment of the input' % (src, out, t.text), case)
            return None
    # line-scoped constructs
    if prog is not None and prog.scopes:
        idx = []
        k = 0
        for t in prog.toks:
            idx.append(k)
            k += 3 if t.cls.startswith('LABEL') else 1
        lines = [t.line for t in outsig]
        for (f, l) in prog.scopes:
            fi, li = idx[f], idx[l]
            if len(set(lines[fi:li + 1])) != 1:
                res.violation('C01|scope-split|%s' % prog.toks[f].cls,
                              'luamin(%r) = %r: a newline was introduced inside the line-scoped construct' % (src, out), case)
                return None
            if li + 1 < len(lines) and lines[li + 1] == lines[li]:
                res.violation('C01|scope-extended|%s|next=%s' % (prog.toks[f].cls, c08_cls(outsig[li + 1])),
                              'luamin(%r) = %r: the token after the line-scoped construct moved onto its line' % (src, out),
                              case)
                return None
    # end-of-line comments: a comment kept in the output must still end where it ended (next token on a later line)
    for k, t in enumerate(outtoks):
        if t.kind == 'comment' and t.level is None:
            nxt = [u for u in outtoks[k + 1:] if u.kind not in ('space',)]
            if nxt and nxt[0].kind != 'newline':
                res.violation('C01|comment-swallows', 'luamin(%r) = %r: comment %r is followed by code on its line' % (
                    src, out, t.text), case)
                return None
    # token count as reported by stats (needs a full re-parse of the output: skipped on the bulk one-gap layouts)
    if light:
        return insig, outsig
    try:
        n_in = obj.get_token_count()
        n_out = lua.Lua.from_lines([out], version=8).get_token_count()
    except Exception as e:
        res.violation('C01|output-unloadable|%s' % type(e).__name__, 'luamin(%r) = %r cannot be loaded: %s' % (src, out, e), case)
        return None
    if n_in != n_out:
        res.violation('C01|token-count', 'stats token count %d -> %d for luamin(%r) = %r' % (n_in, n_out, src, out), case)
        return None
    return insig, outsig


def fused_pair(insig, out):
    """Which adjacent input tokens made the output unlexable: re-lex growing prefixes of the expected stream."""
    for i in range(len(insig) - 1):
        a, b = insig[i], insig[i + 1]
        try:
            got = [t.text for t in reflex.significant(reflex.lex(a.text + b.text, numeral_concat=False))]
            if got != [a.text, b.text] and (a.text + b.text) in out:
                return '%s|%s' % (c08_cls(a), c08_cls(b))
        except reflex.Reject:
            if (a.text + b.text) in out:
                return '%s|%s' % (c08_cls(a), c08_cls(b))
    return 'unknown'


_LOADED = {}


def run_one(prog, src, config, res, fam, light=False, chunked=False):
    res.evaluations += 1
    case = {'src': src, 'config': config, 'family': fam}
    try:
        pre = _LOADED.get('obj') if _LOADED.get('src') == src else None
        chunks = None
        if chunked:
            parts = src.split(b'\n')
            chunks = [p_ + b'\n' for p_ in parts[:-1]] + ([parts[-1]] if parts[-1] else [])
            pre = None
        obj, out = minify(src, config, res, chunks=chunks, obj=pre)
        if not chunked:
            _LOADED['src'], _LOADED['obj'] = src, obj
    except Exception as e:
        if prog is not None and c08.has_qprint(prog.skeleton):
            res.violation('C01|qprint|load-raises', 'luamin cannot load the valid program %r (? print inside a block): %r' % (
                src, e), case)
            return None
        res.violation('C01|raise|%s|%s' % (type(e).__name__, c08.stat_kinds(prog) if prog else 'x'),
                      'luamin(%r, %s) raised %r' % (src, config, e), case)
        return None
    if prog is not None and len(prog.toks) >= 4:
        res.nontriv((src, config))
    r = check_minified(prog, src, config, res, fam, obj, out, light=light)
    if r is not None:
        res.outcome((config, len(out) < len(src)))
    return r, out


# ---------------------------------------------------------------- CLI batch
def cli_batch(res, tier):
    """`p8tool luamin` and `p8tool build --lua-minify` must write what the writer produces."""
    from pico8 import tool
    from pico8.game import file as p8file
    from lib import carts
    d = tempfile.mkdtemp(prefix='c01_')
    try:
        n = 0
        for i, tree in enumerate(L.stat_programs(1)):
            if i % (60 if tier == 'quick' else 10) != 0:
                continue
            prog = L.render(tree)
            if prog is None or not prog.toks:
                continue
            src = L.assemble(prog, {})
            config = CONFIGS[n % 3]
            n += 1
            try:
                obj, want = minify(src, config)
            except Exception:
                continue
            flags = {'default': [], 'keep_all': ['--keep-all-names'],
                     'keep_file': ['--keep-names-from-file', keep_file_path()]}[config]
            # luamin on a .p8
            path = os.path.join(d, 'm%d.p8' % n)
            res.evaluations += 1
            case = {'src': src, 'config': config, 'cli': 'luamin'}
            try:
                p8file.to_file(carts.make_game({}, version=33, code_lines=[src]), path)
            except Exception as e:
                res.violation('C01|cli|input-cart-raise|%s' % type(e).__name__, 'the valid program %r cannot be saved as a cart: %r' % (src, e), case)
                continue
            try:
                rc_ = tool.main(['luamin'] + flags + [path])
                code = b''.join(p8file.from_file(os.path.join(d, 'm%d_fmt.p8' % n)).lua.to_lines())
            except Exception as e:
                res.violation('C01|cli|luamin|raise|%s' % type(e).__name__, 'p8tool luamin on %r raised %r' % (src, e), case)
                continue
            if rc_ != 0 or code.rstrip(b'\n') != want.rstrip(b'\n'):
                res.violation('C01|cli|luamin|differs|%s' % config,
                              'p8tool luamin %s on %r wrote %r, the writer gives %r' % (' '.join(flags[:1]), src, code, want), case)
            # the token count `p8tool stats` reports is the same before and after
            from lib import cli
            st_in = cli.stats_csv(path)
            st_out = cli.stats_csv(os.path.join(d, 'm%d_fmt.p8' % n))
            if st_in is None or st_out is None or st_in.get('Token Count') != st_out.get('Token Count') or \
                    st_in.get('Token Count') != str(obj.get_token_count()):
                res.violation('C01|cli|stats-token-count',
                              '`p8tool stats --csv` reports %r tokens for %r and %r for its luamin output (library count %d)' % (
                                  st_in and st_in.get('Token Count'), src, st_out and st_out.get('Token Count'),
                                  obj.get_token_count()), case)
            # build --lua-minify from a .lua file
            luaf = os.path.join(d, 'b%d.lua' % n)
            open(luaf, 'wb').write(src)
            outp = os.path.join(d, 'b%d.p8' % n)
            res.evaluations += 1
            case = {'src': src, 'config': config, 'cli': 'build'}
            try:
                rc_ = tool.main(['build', outp, '--lua', luaf, '--lua-minify'] + flags)
                code = b''.join(p8file.from_file(outp).lua.to_lines())
            except Exception as e:
                res.violation('C01|cli|build|raise|%s' % type(e).__name__, 'build --lua-minify on %r raised %r' % (src, e), case)
                continue
            if rc_ != 0 or code.rstrip(b'\n') != want.rstrip(b'\n'):
                res.violation('C01|cli|build|differs|%s' % config,
                              'p8tool build --lua-minify %s on %r wrote %r, the writer gives %r' % (
                                  ' '.join(flags[:1]), src, code, want), case)
            res.nontriv(('cli', src, config))
        res.count('cli_programs', n)
    finally:
        shutil.rmtree(d, ignore_errors=True)


# ---------------------------------------------------------------- driver
EXTRA = [b'x=1 -- c\ny=2\n', b'x=1 // c\ny=2\n', b'if (a) b=1 -- c\nc=2\n', b'if (a) b=1 // c\nc=2\n', b'?"a" -- c\nx=1\n',
         b'x=1 --[[c]] y=2\n', b'-- t\n-- a\n-- third\nx=1\n', b'x = a - - b\n', b'x = a - -1\n', b'x = 1 .. 2\n',
         b'x = a .. ...\n', b'x = a .. .5\n', b't[ [[k]] ] = 1\n', b'x = 1 .. a\n', b'x = a and 1 or 2\n',
         b'x = 0x1f e = 1\n', b'x = 1 e1 = 2\n', b'f = 1 x = f\n', b'x = a.b.c d = 1\n', b'x = a ... \n' ]
# long comments that hold closing brackets of another level (they end only at their own closer)
EXTRA += [b'x=1\n--[==[ a\ny=t[u[1]] z=5\n--]==]\nw=2\n', b'x=1 --[=[ was t[k[1]] +v --]=]\ny=2\n', b'--[[ s=[=[raw]=] w=3\n--]]\nx=1\n',
          b'x=[==[ a ]] b ]=] c ]==] y=2\n', b'x=1 --[===[ ]] ]=] ]==] ]===] y=2\n', b'x=[[a]=]b]] --[[c]=]d]] y=1\n']
# header comments (the first two are kept verbatim) whose text ends like something else, directly followed by code
for _h in (b'-- by [[zep]]', b'// see t[tabs[2]]', b'-- a]]', b'-- a]=]', b'--[[t]]', b'--[=[t]=]', b'-- x --', b'// y //', b'-- q\\',
           b'-- "open', b"-- it's", b'--[[a\nb]]', b'--'):
    for _second in (b'', b'-- a\n', _h + b'\n'):
        for _code in (b'x=1\ny=x\n', b'if (a) b=1\nc=2\n', b'?x\n', b'x=1'):
            EXTRA.append(_h + b'\n' + _second + _code)


def shards(tier, seed):
    items = c08.program_shards(tier, seed, tag='c01')
    items += [('extra',), ('cli', tier)] + [('stringpairs', k, 4) for k in range(4)] + [('stringbytes', k, 8) for k in range(8)] + [('population', k, 4) for k in range(4)]
    return items


def run_shard(item):
    res = ShardResult()
    kind = item[0]
    if kind == 'programs':
        _, tag, tier, fam, k, n = item
        seen = set()
        for prog in c08.programs(tier, fam, k, n):
            if isinstance(prog, tuple):
                continue
            srcs = c08.sources_for(prog, tier, fam)
            for j, (src, desc) in enumerate(srcs):
                hk = h64(src)
                if hk in seen:
                    continue
                seen.add(hk)
                # all three configurations on the default/tight/pair-gap layouts; others rotate
                cfgs = CONFIGS if (desc in ('default', 'tight', 'pair-gap') and fam not in ('local', 'chain')) else \
                    [CONFIGS[(j + len(prog.toks)) % 3]]
                for cfg in cfgs:
                    run_one(prog, src, cfg, res, fam, light=(desc == 'dev1'), chunked=(desc in ('lines', 'token-per-line')))
            if fam == 'pairs':
                res.cover('adj_pairs_minified', prog.pair)
            if k == 0 and len(res.samples) < 1:
                try:
                    res.sample({'family': fam, 'src': L.assemble(prog, {}), 'minified': minify(L.assemble(prog, {}), 'default')[1]})
                except Exception:
                    pass
    elif kind == 'extra':
        for src in EXTRA:
            for cfg in CONFIGS:
                run_one(None, src, cfg, res, 'extra')
    elif kind == 'stringpairs':
        # all ordered pairs of string literals in one program (and one process): writer-side memory of one literal
        # must not leak into the spelling of the next
        from props import c06
        n = 0
        for a in c06.STRING_LITS:
            for b in c06.STRING_LITS:
                n += 1
                if n % item[2] != item[1]:
                    continue
                for src in (b'x=' + a + b' y=' + b + b'\n', b'f(' + a + b',' + b + b')\n'):
                    run_one(None, src, CONFIGS[n % 3], res, 'extra')
        res.sample({'family': 'stringpairs', 'src': b"x='say \"hi\"' y=\"say \\\"hi\\\"\"\n"})
    elif kind == 'population':
        # programs with hundreds of distinct identifiers (multi-letter generated names, wrap points of the numbering)
        from props import c02
        for i, src in enumerate(c02.population_programs()):
            if i % item[2] == item[1]:
                for cfg in CONFIGS:
                    run_one(None, src, cfg, res, 'extra')
        res.sample({'family': 'population', 'names': 'v0_..v{K-1}_ then a..z, aa, ab ... for K around 26, 52, 702, 728'})
    elif kind == 'stringbytes':
        # every byte value in a quoted string: raw (where a raw byte is legal) and as a decimal / hex escape, in both
        # quote kinds, followed by a digit, a letter, or the closing quote (the minifier re-spells string literals)
        n = 0
        for b in range(0, 256):
            spellings = [b'\\%d' % b, b'\\%03d' % b, b'\\x%02x' % b]
            if b not in (0, 10, 13, 34, 39, 92):
                spellings.append(bytes([b]))
            for sp in spellings:
                for q in (b'"', b"'"):
                    for tail in (b'', b'7', b'z'):
                        n += 1
                        if n % item[2] != item[1]:
                            continue
                        if len(sp) > 1 and sp[1:2].isdigit() and len(sp) < 4 and tail == b'7':
                            continue        # '\\5' + '7' would read as '\\57'
                        src = b'x=' + q + b'p' + sp + tail + q + b' y=2\n'
                        run_one(None, src, CONFIGS[n % 3], res, 'extra')
        res.sample({'family': 'stringbytes', 'src': b'x="p\\0207" y=2\n'})
    elif kind == 'cli':
        cli_batch(res, item[1])
    return res


def finalize(total):
    total.states = len(total.sets.get('writer_states', ()))
    total.transitions = len(total.sets.get('writer_transitions', ()))


def replay(case):
    res = ShardResult()
    src = case['src']
    if case.get('cli'):
        cli_batch(res, 'thorough')
        return [(s, v[0]) for s, v in res.violations.items()]
    from props import c09
    prog = c09.find_program(src, case.get('family', 'stat')) if case.get('family') != 'extra' else None
    run_one(prog, src, case['config'], res, case.get('family', 'stat'))
    return [(s, v[0]) for s, v in res.violations.items()]
