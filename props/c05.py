"""C05 — code compression is lossless and emits only well-formed :c: streams.

Encoder: bounded-exhaustive strings (all strings <= L over a 4-symbol alphabet; macro alphabet with
`_update60`; window-edge family; every end position relative to a block) through compress_code and the
PNG code-area writer, judged by the independent :c: decoder / well-formedness checker.
Decoder: explicit-state BFS over the space of well-formed streams (state = output produced so far;
operations = table literal, escaped literal, back-reference incl. overlapping ones); picotool's
decompressor must agree with the reference decoder after every transition.
"""
import collections

from lib import refcodec as rc
from lib.core import ShardResult, h64

LEVEL = 'model_checking'
RULE = ('encoder: every string of length <= L over {a, b, newline, A(non-table)} (quick L=8, thorough L=11), macro '
        'strings over {_update60, newline, "if(", x, space} after a compressible pad, repeats at distances around the '
        '3120-byte window edge x block lengths around 17, truncation at every position of a block; decoder: BFS over '
        'stream operations (3 table literals, 2 escaped literals, references with offset in a boundary set incl. '
        'overlapping offset<length, length in {3,4,17}) deduplicated on the produced output; non-trivial = the stream '
        'contains at least one back-reference; distinct = distinct input text / distinct decoder state')
ASSUMPTIONS = ['the reference :c: decoder (lib/refcodec.py) is correct; it decodes the PICO-8-written test carts',
               'code texts contain no NUL and no CR (the raw code area is NUL-terminated; the reader maps CR to space)',
               'decoder search merges states with equal produced output: the decoder state is exactly that output']
BOUNDS = {'quick': {'string_len': 8, 'decoder_depth': 5, 'window_cases': 12},
          'thorough': {'string_len': 11, 'decoder_depth': 6, 'window_cases': 205}}

ALPHA = [b'a', b'b', b'\n', b'A']
MACRO = [b'_update60', b'\n', b'if(', b'x', b' ']
MACRO_BYTES = set(bytes([c]) for c in b''.join(MACRO))
WINDOW = (255 - 60) * 16


def mods():
    from pico8.game import compress
    from pico8.game.formatter import p8png
    return compress, p8png


def header(n):
    return b':c:\x00' + bytes([n >> 8, n & 255]) + b'\x00\x00'


def classify_text(t):
    if b'_update60' in t:
        return 'update60'
    if len(t) > 3000:
        return 'window'
    return 'len%d' % min(len(t), 12) if len(t) < 12 else 'long'


def check_text(t, res, fam, full=True):
    """Encoder oracle for one code text."""
    compress, p8png = mods()
    res.evaluations += 1
    case = {'kind': 'text', 'text': t}
    try:
        stream = bytes(compress.compress_code(t))
    except Exception as e:
        res.violation('C05|encoder|raise|%s|%s' % (type(e).__name__, fam), 'compress_code(%r) raised %r' % (t[:40], e), case)
        return
    # the stream may encode text + compatibility suffix: parse it to its end
    try:
        allout, used = decode_all(stream)
    except rc.StreamError as e:
        res.violation('C05|encoder|malformed|%s' % fam, 'stream for %r is malformed: %s' % (t[:40], e), case)
        return
    probs = rc.c_wellformed(stream, len(allout))
    if probs:
        res.violation('C05|encoder|illformed|%s|%s' % (probs[0].split(' ')[0], fam),
                      'stream for %r: %s' % (t[:40], '; '.join(probs[:3])), case)
        return
    has_ref = any(b >= 0x3c for b in ref_heads(stream))
    if has_ref:
        res.nontriv(t)
    if not allout.startswith(t):
        res.violation('C05|encoder|lossy|%s' % fam,
                      'reference decoder gives %r for the stream of %r' % (allout[:60], t[:60]), case)
        return
    res.transitions += 1
    # picotool's own decoder on header+stream
    area = header(len(t)) + stream
    area = area + bytes(max(0, 0x3d00 - len(area)))
    try:
        n, code, csize = compress.decompress_code(bytearray(area))
    except Exception as e:
        res.violation('C05|selfdecode|raise|%s|%s' % (type(e).__name__, fam),
                      'decompress_code raised %r on picotool\'s own stream for %r' % (e, t[:40]), case)
        return
    if code != t:
        kind = 'leak' if code.startswith(t) and len(code) > len(t) else 'mismatch'
        res.violation('C05|selfdecode|%s|%s' % (kind, fam),
                      'decompress_code(compress_code(t)) = %r..., t = %r...(len %d vs %d)' % (
                          code[-30:], t[-30:], len(code), len(t)), case)
    if full and b'\x00' in t and len(stream) >= len(t):
        full = False        # NUL cannot be stored in the NUL-terminated raw form: only the :c: form is in the domain
    if full:
        # the code-area writer/reader used by the .p8.png formatter
        try:
            ba = p8png.get_bytes_from_code(t)
        except Exception as e:
            res.violation('C05|codearea|write-raise|%s|%s' % (type(e).__name__, 'raw' if len(stream) >= len(t) else 'cmp'),
                          'get_bytes_from_code(%r) raised %r' % (t[:40], e), case)
            return
        # the same text handed over in a mutable buffer (a writer that collects its chunks in a bytearray): same area,
        # and the caller's buffer is left as it was
        try:
            buf = bytearray(t)
            ba2 = p8png.get_bytes_from_code(buf)
            res.evaluations += 1
            if bytes(ba2) != bytes(ba) or bytes(buf) != t:
                res.violation('C05|codearea|mutable-input|%s' % ('buffer-changed' if bytes(buf) != t else 'area-differs'),
                              'get_bytes_from_code(bytearray(%r)): %s' % (t[:40], 'the caller\'s buffer now holds %d bytes (was %d)' % (len(buf), len(t))
                                                                      if bytes(buf) != t else 'gives another code area than for the same text as bytes'), case)
                return
        except Exception as e:
            res.violation('C05|codearea|mutable-input|raise|%s' % type(e).__name__, 'get_bytes_from_code(bytearray(%r)) raised %r' % (t[:40], e), case)
            return
        try:
            ref_text, mode = rc.code_area_decode(bytes(ba))
        except Exception as e:
            res.violation('C05|codearea|ref-undecodable', 'reference cannot decode the code area for %r: %r' % (t[:40], e), case)
            return
        if ref_text != t:
            res.violation('C05|codearea|ref-mismatch|%s' % mode,
                          'code area for %r decodes (reference, %s) to %r' % (t[:40], mode, ref_text[:60]), case)
        # the writer never looks at the cart version, so the reader must decode the area under every version byte
        for ver in ((0, 8, 1, 255) if len(t) <= 64 else (0, 8)):
            try:
                n2, code2, cs2 = p8png.get_code_from_bytes(ba, ver)
            except Exception as e:
                res.violation('C05|codearea|read-raise|%s' % type(e).__name__,
                              'get_code_from_bytes(area, %d) raised %r' % (ver, e), case)
                return
            # (get_code_from_bytes is the .p8.png reader's entry: it turns CR into a blank and supplies a final newline to
            # raw code - normalisations that belong to C04, not to the compression)
            t_n = t.replace(b'\r', b' ')
            ok = (code2 == t_n) or (cs2 is None and code2 == t_n + b'\n')
            if not ok:
                res.violation('C05|codearea|roundtrip|%s|v%d' % ('raw' if cs2 is None else 'cmp', ver),
                              'get_code_from_bytes(get_bytes_from_code(%r), version=%d) = %r' % (t[:40], ver, code2[:60]), case)
        res.outcome(('mode', mode, has_ref))


def ref_heads(stream):
    """Head bytes of the items of a stream."""
    i = 0
    while i < len(stream):
        b = stream[i]
        yield b
        i += 2 if (b == 0 or b >= 0x3c) else 1


def decode_all(stream):
    """Reference-decodes a whole stream (no length limit)."""
    out = bytearray()
    i = 0
    while i < len(stream):
        b = stream[i]
        i += 1
        if b == 0:
            if i >= len(stream):
                raise rc.StreamError('escape at end')
            out.append(stream[i])
            i += 1
        elif b < 0x3c:
            out.append(rc.C_TABLE[b])
        else:
            if i >= len(stream):
                raise rc.StreamError('reference cut')
            b2 = stream[i]
            i += 1
            off = (b - 0x3c) * 16 + (b2 & 15)
            ln = (b2 >> 4) + 2
            if off < 1 or off > len(out):
                raise rc.StreamError('offset %d with %d produced' % (off, len(out)))
            for _ in range(ln):
                out.append(out[-off])
    return bytes(out), i


# ---------------------------------------------------------------- encoder families
def nth_string(idx, alpha):
    """idx-th string in length-then-lexicographic order over alpha (idx 0 = empty)."""
    k = len(alpha)
    ln = 0
    n = 1
    while idx >= n:
        idx -= n
        ln += 1
        n *= k
    out = []
    for _ in range(ln):
        out.append(alpha[idx % k])
        idx //= k
    return b''.join(reversed(out))


def count_strings(maxlen, k):
    return sum(k ** i for i in range(maxlen + 1))


PAD = b'function f(x) return x end\n' * 2


def window_text(dist, blen):
    """A unique block, then filler of non-repeating text, then the block again `dist` bytes later."""
    block = (b'QWERTZUIOPASDFGHJKLYXCVBNM')[:blen]
    filler = bytearray()
    i = 0
    while len(filler) < dist - blen:
        filler += b'%x,' % (i * 7919 + 13)
        i += 1
    filler = bytes(filler[:dist - blen])
    return block + filler + block + b'\n'


def window_cases(tier):
    if tier == 'quick':
        return [(d, b) for b in (16, 17, 18) for d in (WINDOW - 1, WINDOW, WINDOW + 1)] + \
               [(d, 17) for d in (WINDOW + 15, WINDOW + 16, WINDOW + 17)]
    return [(d, b) for b in range(15, 20) for d in range(3100, 3141)]


def truncation_texts():
    base = b'abcdefghijklmnopqrstuvwxyz0123\n'
    rep = base + b'abcdefghijklmnopqrstuvw' + b'tail'
    out = [rep[:i] for i in range(len(base), len(rep) + 1)]
    # same with the compatibility suffix in play
    rep2 = b'_update60=1\n' + base + base[:20]
    out += [rep2[:i] for i in range(12, len(rep2) + 1)]
    return out


# ---------------------------------------------------------------- decoder BFS
LITS = [bytes([rc.C_TABLE.index(b'a')]), bytes([rc.C_TABLE.index(b'\n')]), bytes([rc.C_TABLE.index(b'_')]),
        b'\x00A', b'\x00\xff', b'\x00\x00']
REF_LENS = (3, 4, 17)


def ref_offsets(n, ln):
    cand = {1, 2, 3, ln - 1, ln, ln + 1, 15, 16, 17, 31, 32, n - 1, n, n // 2}
    return sorted(o for o in cand if 1 <= o <= n)


def ops_for(out):
    ops = [('lit', l) for l in LITS]
    n = len(out)
    for ln in REF_LENS:
        for off in ref_offsets(n, ln):
            ops.append(('ref', off, ln))
    return ops


def enc_op(op):
    if op[0] == 'lit':
        return op[1]
    _, off, ln = op
    return bytes([0x3c + off // 16, (off % 16) | ((ln - 2) << 4)])


def apply_model(out, op):
    if op[0] == 'lit':
        l = op[1]
        return out + (l[1:2] if l[0] == 0 else bytes([rc.C_TABLE[l[0]]]))
    _, off, ln = op
    o = bytearray(out)
    for _ in range(ln):
        o.append(o[-off])
    return bytes(o)


def decoder_bfs(depth, res, max_states=None):
    compress, _ = mods()
    seen = {b''}
    frontier = collections.deque([(b'', b'', 0)])    # (stream, output, depth)
    res.states += 1
    while frontier:
        stream, out, d = frontier.popleft()
        if d >= depth:
            continue
        for op in ops_for(out):
            s2 = stream + enc_op(op)
            want = apply_model(out, op)
            # cross-check the model step with the reference decoder on the whole stream
            refout, used = rc.c_decode(s2, len(want))
            assert refout == want and used == len(s2), (s2, want, refout)
            res.transitions += 1
            res.evaluations += 1
            area = header(len(want)) + s2 + bytes(24)
            case = {'kind': 'stream', 'stream': s2}
            try:
                n, code, csize = compress.decompress_code(bytearray(area))
            except Exception as e:
                res.violation('C05|decoder|raise|%s|%s' % (type(e).__name__, op_class(op)),
                              'decompress_code raised %r on well-formed stream %r' % (e, s2), case)
                continue
            if op[0] == 'ref':
                res.nontriv(s2)
            if code != want:
                res.violation('C05|decoder|mismatch|%s' % op_class(op),
                              'stream %r: picotool decodes %r, format says %r' % (s2, code[-40:], want[-40:]), case)
                continue
            res.outcome((op_class(op),))
            if want not in seen:
                seen.add(want)
                res.states += 1
                frontier.append((s2, want, d + 1))
    return len(seen)


# ---------------------------------------------------------------- decoder from a far (non-initial) state
def far_prefix(n):
    """A well-formed stream producing exactly n varied bytes: literals of a 7-byte cycle, then non-overlapping /
    overlapping references (fast to build, long to look back into)."""
    stream = bytearray()
    out = bytearray()
    seedlits = [13, 14, 15, 16, 17, 18, 19, 1, 2, 20, 21]     # table indices: a..g, newline, space, h, i
    for k in seedlits:
        stream.append(k)
        out.append(rc.C_TABLE[k])
    i = 0
    dense = n > 10000       # long outputs: mostly maximal blocks, so that the stream still fits the code area
    while len(out) < n:
        i += 1
        if dense and n - len(out) >= 17 and i % 50:
            off = 1 + (i * 37) % min(len(out), 3135)
            stream += bytes([0x3c + off // 16, (off % 16) | (15 << 4)])
            for _ in range(17):
                out.append(out[-off])
            continue
        if i % 5 == 0 or n - len(out) < 3:
            k = 13 + (i * 7) % 40
            stream.append(k)
            out.append(rc.C_TABLE[k])
            continue
        ln = min(n - len(out), 3 + (i * 5) % 15)
        off = 1 + (i * 37) % min(len(out), 3135)
        stream += bytes([0x3c + off // 16, (off % 16) | ((ln - 2) << 4)])
        for _ in range(ln):
            out.append(out[-off])
    return bytes(stream), bytes(out)


def decoder_far(lo, hi, lens, res, produced=3300, offsets=None):
    """From the state 'produced bytes already decoded', one more reference at every offset in [lo, hi) x lens: the
    format addresses offsets 1..(255-60)*16+15 = 3135 whichever window the producer searched."""
    compress, _ = mods()
    pre_stream, pre_out = far_prefix(produced)
    if decode_all(pre_stream)[0] != pre_out or rc.c_decode(pre_stream, len(pre_out))[0] != pre_out:
        raise AssertionError('harness: far_prefix stream does not decode to its own output under the reference decoders')
    for off in (range(lo, hi) if offsets is None else offsets):
        for ln in lens:
            s2 = pre_stream + bytes([0x3c + off // 16, (off % 16) | ((ln - 2) << 4)]) + b'\x0d'
            want = bytearray(pre_out)
            for _ in range(ln):
                want.append(want[-off])
            want.append(rc.C_TABLE[0x0d])
            want = bytes(want)
            res.evaluations += 1
            res.transitions += 1
            res.nontriv(('far', off, ln))
            res.cover('far_offsets', off)
            case = {'kind': 'stream', 'stream': s2}
            area = header(len(want)) + s2 + bytes(24)
            try:
                n, code, cs = compress.decompress_code(bytearray(area))
            except Exception as e:
                res.violation('C05|decoder|raise|%s|%s' % (type(e).__name__, op_class(('ref', off, ln))),
                              'well-formed stream ending in a reference offset %d length %d after %d produced bytes: '
                              'decompress_code raised %r' % (off, ln, produced, e), case)
                continue
            if code != want:
                res.violation('C05|decoder|mismatch|%s' % op_class(('ref', off, ln)),
                              'stream ending in a reference offset %d length %d after %d produced bytes: picotool decodes '
                              '%r, format says %r' % (off, ln, produced, code[-24:], want[-24:]), case)
            else:
                res.outcome(('far', ln))


def op_class(op):
    if op[0] == 'lit':
        return 'literal-escaped' if op[1][0] == 0 else 'literal-table'
    _, off, ln = op
    if off > WINDOW:
        return 'ref-offset-above-3120'
    return 'ref-overlap' if off < ln else 'ref'


# ---------------------------------------------------------------- driver
HISTORY_TEXTS = [
    b'x=x+1 x=x+1 x=x+1 x=x+1 x=x+1 x=x+1\n',                        # compressible
    b'function _update60() x=x+1 x=x+1 x=x+1 x=x+1 end\n',           # compressible, compatibility suffix in play
    b'y=y*2 y=y*2 y=y*2 y=y*2 y=y*2 y=y*2 y=y*2 y=y*2\n',            # compressible, another text
    b'qz',                                                            # stored raw
    b'',
]


def check_history(depth, res):
    """Sequences of compress / code-area operations in ONE process: every call must give the answer a fresh process
    gives, whatever was compressed before (same text again, another text, raw after compressed, ...).  Each step
    runs the whole single-text oracle (reference decoder, picotool decoder, code-area writer and reader)."""
    import itertools
    n = len(HISTORY_TEXTS)
    for ln in range(2, depth + 1):
        for seq in itertools.product(range(n), repeat=ln):
            for step, i in enumerate(seq):
                before = len(res.violations)
                r = ShardResult()
                check_text(HISTORY_TEXTS[i], r, 'history')
                res.evaluations += r.evaluations
                res.transitions += 1
                for sig, v in r.violations.items():
                    res.violation('C05|history|after=%s|%s' % ('same-text' if step and seq[step - 1] == i else 'other-text' if step else 'nothing',
                                                            sig.split('|', 1)[1]),
                                  v[0] + ' [operation %d of the sequence of texts %r in one process]' % (step, list(seq)),
                                  {'history': list(seq)})
                if r.violations:
                    return
            res.nontriv(('history', seq))
    res.outcome(('history', depth))


def shards(tier, seed):
    L = BOUNDS[tier]['string_len']
    total = count_strings(L, 4)
    n = 64 if tier == 'quick' else 256
    step = (total + n - 1) // n
    items = [('strings', lo, min(total, lo + step)) for lo in range(0, total, step)]
    mtotal = count_strings(5, len(MACRO))
    mstep = (mtotal + 15) // 16
    items += [('macro', lo, min(mtotal, lo + mstep)) for lo in range(0, mtotal, mstep)]
    items += [('window', d, b) for d, b in window_cases(tier)]
    items += [('trunc',)]
    items += [('capacity', d) for d in ((0, 1, 8) if tier == 'quick' else (-1, 0, 1, 4, 8, 9))]
    items += [('decoder', BOUNDS[tier]['decoder_depth'])]
    items += [('history', 3 if tier == 'quick' else 4)]
    items += [('nul', k, 4) for k in range(4)]
    items += [('allbytes', k, 4) for k in range(4)]
    # every addressable offset 1..3135 from a far state: quick lengths {3, 17}, thorough all 16 lengths 2..17 -> 3..17
    items += [('far', lo, min(3136, lo + 196), tier) for lo in range(1, 3136, 196)]
    # the header's 16-bit length field: decoded lengths around 2^15 and up to 2^16-1
    # (the case appends an 17-byte block and a literal: declared length = n + 18, i.e. 32767, 32768, 32769, 65535 ...)
    items += [('farlen', n - 18) for n in ((32767, 32768, 32769, 65535) if tier == 'quick' else
                                          (16383, 16384, 16385, 32767, 32768, 32769, 49152, 65280, 65534, 65535))]
    # long-running shards first
    items.sort(key=lambda it: {'capacity': 0, 'decoder': 1, 'window': 2}.get(it[0], 3))
    return items


def run_shard(item):
    res = ShardResult()
    kind = item[0]
    if kind == 'history':
        check_history(item[1], res)
        res.sample({'family': 'history', 'texts': HISTORY_TEXTS[:3], 'sequences': 'all of length 2..%d over 5 texts' % item[1]})
        return res
    if kind == 'allbytes':
        # every byte value 0..255 (all 59 table characters, every escaped byte) as a literal: alone, doubled, tripled,
        # between compressible text and next to each table neighbour
        for c in range(256):
            if c % item[2] != item[1]:
                continue
            b = bytes([c])
            for t in (b, b * 2, b * 3, PAD + b, b + PAD, PAD + b + PAD[:7] + b, b'x' + b + b'=' + b + b'\n'):
                check_text(t, res, 'allbytes')
        res.sample({'family': 'allbytes', 'text': PAD + b'#'})
        return res
    if kind == 'nul':
        # the byte 0x00 (stored as the escape pair 00 00): every string of length <= L over {a, LF, NUL} before, after
        # and between compressible text
        L_ = 5
        alpha = [b'a', b'\n', b'\x00']
        total = count_strings(L_, 3)
        for idx in range(total):
            if idx % item[2] != item[1]:
                continue
            s_ = nth_string(idx, alpha)
            if b'\x00' not in s_:
                continue
            for t in (PAD + s_, s_ + PAD, PAD + s_ + PAD):
                check_text(t, res, 'nul')
        res.sample({'family': 'nul', 'text': PAD + b'a\x00\x00\n'})
        return res
    if kind == 'farlen':
        pre_stream, _ = far_prefix(item[1])
        if len(pre_stream) + 8 + 3 > 0x3d00:
            raise AssertionError('harness: long stream does not fit the code area')
        decoder_far(1, 3136, (17,), res, produced=item[1], offsets=(1, 2, 16, 17, 18, 255, 256, 3119, 3120, 3121, 3135))
        res.sample({'family': 'farlen', 'declared_length': item[1] + 18, 'stream_len': len(pre_stream) + 3})
        return res
    if kind == 'far':
        decoder_far(item[1], item[2], (3, 17) if item[3] == 'quick' else tuple(range(3, 18)), res)
        if item[1] == 1:
            res.sample({'family': 'far', 'meaning': 'after 3300 decoded bytes, a reference at every offset 1..3135'})
        return res
    if kind == 'strings':
        for idx in range(item[1], item[2]):
            t = nth_string(idx, ALPHA)
            check_text(t, res, 'strings')
        res.sample({'text': nth_string(item[2] - 1, ALPHA)}, limit=1)
    elif kind == 'macro':
        for idx in range(item[1], item[2]):
            t = PAD + nth_string(idx, MACRO)
            check_text(t, res, 'macro')
            if idx % 7 == 0:
                check_text(nth_string(idx, MACRO), res, 'macro-nopad')
        res.sample({'text': PAD + nth_string(item[2] - 1, MACRO)}, limit=1)
    elif kind == 'window':
        t = window_text(item[1], item[2])
        check_text(t, res, 'window')
        res.count('window_cases')
        res.sample({'window_distance': item[1], 'block_len': item[2], 'text_len': len(t)}, limit=1)
    elif kind == 'capacity':
        # a text whose compressed stream is exactly 0x3d00-8+d bytes: either refused, or stored losslessly
        from props import c04
        _, p8png = mods()
        # (exact stream lengths are not always reachable at an item boundary: take the nearest not above)
        lo = 0x3d00 - 8 + item[1] - 1 if item[1] != 1 else 0x3d00 - 8 + 1
        t = c04.comp_text_with_stream_between(lo, 0x3d00 - 8 + item[1])
        if t is not None:
            res.evaluations += 1
            res.nontriv(('capacity', item[1]))
            case = {'kind': 'capacity', 'd': item[1]}
            try:
                ba = p8png.get_bytes_from_code(t)
            except Exception:
                res.outcome(('capacity', 'refused'))
                ba = None
            if ba is not None:
                if len(ba) != 0x3d00:
                    res.violation('C05|capacity|code-area-size', 'code area for a stream of %d bytes has %d bytes (must be %d)' % (
                        0x3d00 - 8 + item[1], len(ba), 0x3d00), case)
                else:
                    try:
                        text, mode = rc.code_area_decode(bytes(ba))
                    except Exception as e:
                        text, mode = None, repr(e)
                    if text != t:
                        res.violation('C05|capacity|lossy', 'code area (%s) for a %d-byte stream does not decode to the text' % (
                            mode, 0x3d00 - 8 + item[1]), case)
                    else:
                        res.outcome(('capacity', 'stored'))
            res.sample({'capacity_stream_len': 0x3d00 - 8 + item[1], 'text_len': len(t)}, limit=1)
    elif kind == 'trunc':
        for t in truncation_texts():
            check_text(t, res, 'trunc')
    elif kind == 'decoder':
        n = decoder_bfs(item[1], res)
        res.count('decoder_states', n)
        res.sample({'decoder_stream': b'\x0d\x3c\x21', 'meaning': "literal 'a' then reference offset 1 length 4 (overlapping)"})
    return res


def replay(case):
    res = ShardResult()
    compress, _ = mods()
    if 'history' in case:
        check_history(len(case['history']), res)
        return [(s, v[0]) for s, v in res.violations.items()]
    if case['kind'] == 'capacity':
        res.merge(run_shard(('capacity', case['d'])))
        return [(s, v[0]) for s, v in res.violations.items()]
    if case['kind'] == 'text':
        t = case['text']
        check_text(t, res, classify_family(t))
    else:
        s2 = case['stream']
        want, used = decode_all(s2)
        area = header(len(want)) + s2 + bytes(24)
        # recover the last op for the signature
        last = None
        i = 0
        while i < len(s2):
            b = s2[i]
            if b == 0:
                last = ('lit', s2[i:i + 2]); i += 2
            elif b < 0x3c:
                last = ('lit', s2[i:i + 1]); i += 1
            else:
                b2 = s2[i + 1]
                last = ('ref', (b - 0x3c) * 16 + (b2 & 15), (b2 >> 4) + 2); i += 2
        try:
            n, code, cs = compress.decompress_code(bytearray(area))
            if code != want:
                res.violation('C05|decoder|mismatch|%s' % op_class(last),
                              'stream %r: picotool decodes %r, format says %r' % (s2, code[-40:], want[-40:]), case)
        except Exception as e:
            res.violation('C05|decoder|raise|%s|%s' % (type(e).__name__, op_class(last)), repr(e), case)
    return [(s, v[0]) for s, v in res.violations.items()]


def classify_family(t):
    if b'\x00' in t:
        return 'nul'
    if len(t) <= 3 or (PAD in t and len(t) <= 2 * len(PAD) + 10 and not all(bytes([c]) in MACRO_BYTES for c in t.replace(PAD, b''))):
        return 'allbytes'
    if t in truncation_texts():
        return 'trunc'
    if len(t) > 3000:
        return 'window'
    if t.startswith(PAD):
        return 'macro'
    if all(bytes([c]) in ALPHA for c in t):
        return 'strings'
    return 'macro-nopad'
