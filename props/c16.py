"""C16 — on-disk encodings match the PICO-8 cart formats (not merely each other).

picotool's section text codecs and PNG packer are compared, unit by unit, with the independent
reference codecs in lib/refcodec.py (validated against the PICO-8-written carts by
tools/validate_ref.py).  Every value of every unit is enumerated at every structural position.
"""
import io
import os

from lib import refcodec as rc
from lib.core import ShardResult, REPO

LEVEL = 'exploration'
RULE = ('complete unit enumeration: all 65 536 sfx note words and all 256 values of every sfx header byte, all 256 byte '
        'values at each of the 64 columns of a gfx row, all 256 values of each music byte x boundary values of the '
        'other three, all 256 values at every gff/map offset, all 256x256 (memory byte, carrier channel value) pairs in '
        'each of the four stego channels, region-distinct fills through the whole .p8.png writer/reader, both '
        'directions, plus the PICO-8-written cart pairs; a case (one region image / one PNG) is non-trivial when it '
        'contains a non-zero byte; distinct = distinct region image')
ASSUMPTIONS = ['unit independence: a region codec is a product of per-unit codecs (adjacent-unit pairs over boundary '
               'values are enumerated in addition to expose carried state)',
               'reference codecs (lib/refcodec.py) are correct; they are validated against carts written by PICO-8',
               '.p8 sections are full-size (the older format variant picotool reads and writes)']
BOUNDS = {'quick': {'music_others': '8 equal boundary values', 'adjacent_pairs': '8x8 boundary values in gfx/gff/map'},
          'thorough': {'music_others': 'all 8^3 boundary combinations', 'adjacent_pairs': '8x8 boundary values, all sections'}}



def _cls():
    from pico8.gfx.gfx import Gfx
    from pico8.gff.gff import Gff
    from pico8.map.map import Map
    from pico8.sfx.sfx import Sfx
    from pico8.music.music import Music
    return {'gfx': Gfx, 'gff': Gff, 'map': Map, 'sfx': Sfx, 'music': Music}


REF_ROWS = {
    'gfx': rc.gfx_rows,
    'gff': lambda m: rc.hex_rows(m, 128),
    'map': lambda m: rc.hex_rows(m, 128),
    'sfx': rc.sfx_rows,
    'music': rc.music_rows,
}


def unit_class(section, off):
    if section == 'sfx':
        o = off % 68
        if o >= 64:
            return 'header%d' % (o - 64)
        return 'note-lsb' if o % 2 == 0 else 'note-msb'
    if section == 'music':
        return 'chan%d' % (off % 4)
    return 'byte'


def check_region(section, mem, res, version=8, tag=''):
    """Both directions for one region image."""
    cls = _cls()[section]
    mem = bytes(mem)
    rows = REF_ROWS[section](mem)
    ref_lines = [r.encode('ascii') + b'\n' for r in rows]
    res.evaluations += 1
    if any(mem):
        res.nontriv((section, mem))
    case = {'section': section, 'mem': mem}
    # memory -> text
    try:
        obj = cls.from_bytes(bytearray(mem), version=version)
        lines = [bytes(l) for l in obj.to_lines()]
    except Exception as e:
        res.violation('C16|%s|to_lines|raise|%s' % (section, type(e).__name__),
                      '%s.to_lines raised %r' % (section, e), case)
        lines = None
    if lines is not None and lines != ref_lines:
        k = next((i for i in range(min(len(lines), len(ref_lines))) if lines[i] != ref_lines[i]), None)
        if k is None:
            sig = 'C16|%s|to_lines|rowcount' % section
            desc = '%s.to_lines wrote %d rows, format has %d' % (section, len(lines), len(ref_lines))
        else:
            a, b = lines[k], ref_lines[k]
            col = next((i for i in range(min(len(a), len(b))) if a[i] != b[i]), min(len(a), len(b)))
            sig = 'C16|%s|to_lines|%s' % (section, text_class(section, col))
            desc = '%s row %d col %d: picotool wrote %r, format prescribes %r' % (
                section, k, col, a[max(0, col - 4):col + 6], b[max(0, col - 4):col + 6])
        res.violation(sig, desc, case)
    # text -> memory (the rows as a list, and as one-shot iterables: an iterator, a generator)
    try:
        obj2 = cls.from_lines(list(ref_lines), version=version)
        back = bytes(obj2.to_bytes())
        for how, src_lines in (('iterator', iter(list(ref_lines))), ('generator', (ln for ln in list(ref_lines))),
                               ('tuple', tuple(ref_lines))):
            alt = bytes(cls.from_lines(src_lines, version=version).to_bytes())
            if alt != back:
                res.violation('C16|%s|from_lines|%s-differs' % (section, how),
                              '%s.from_lines gives other bytes when the same rows arrive as %s instead of a list' % (section, how), case)
                return
        # the last row without its newline (a file whose final newline is missing; rows are fixed-width text)
        cut = list(ref_lines[:-1]) + [ref_lines[-1][:-1]]
        alt = bytes(cls.from_lines(cut, version=version).to_bytes())
        if alt != back:
            off = next((i for i in range(min(len(alt), len(back))) if alt[i] != back[i]), min(len(alt), len(back)))
            res.violation('C16|%s|from_lines|unterminated-last-row' % section,
                          '%s.from_lines reads other bytes (first at offset %#x) when the last row lacks its newline' % (section, off), case)
            return
    except Exception as e:
        res.violation('C16|%s|from_lines|raise|%s' % (section, type(e).__name__),
                      '%s.from_lines raised %r' % (section, e), case)
        return
    want = mem
    if section == 'music':
        want = bytes((x & 0x7f) if i % 4 == 3 else x for i, x in enumerate(mem))
    if back != want:
        if len(back) != len(want):
            res.violation('C16|%s|from_lines|size' % section,
                          '%s.from_lines gave %d bytes, expected %d' % (section, len(back), len(want)), case)
        else:
            off = next(i for i in range(len(want)) if back[i] != want[i])
            res.violation('C16|%s|from_lines|%s' % (section, unit_class(section, off)),
                          '%s offset %#x: picotool read %#x, format says %#x' % (section, off, back[off], want[off]),
                          case)
    res.outcome((section, rows[0][:16]))


def text_class(section, col):
    if section == 'sfx':
        if col < 8:
            return 'header%d' % (col // 2)
        return ['pitch', 'pitch', 'waveform', 'volume', 'effect'][(col - 8) % 5]
    if section == 'music':
        if col < 2:
            return 'flags'
        if col == 2:
            return 'space'
        return 'chan%d' % ((col - 3) // 2)
    if section == 'gfx':
        return 'pixel-%s' % ('even' if col % 2 == 0 else 'odd')
    return 'hexdigit-%s' % ('hi' if col % 2 == 0 else 'lo')


from lib.carts import (BV, sfx_region, gfx_region, pair_region, music_regions, rot_region)  # noqa: E402


# ---------------------------------------------------------------- PNG / stego
def carrier_rows(k):
    rows = []
    for y in range(205):
        row = bytearray(160 * 4)
        for x in range(160):
            i = y * 160 + x
            c = ((i >> 8) + 128 * k) & 0xff
            row[4 * x + 0] = c
            row[4 * x + 1] = (c + 64) & 0xff
            row[4 * x + 2] = (c + 128) & 0xff
            row[4 * x + 3] = (c + 192) & 0xff
        rows.append(row)
    return rows


def check_stego(k, res):
    from pico8.game.formatter import p8png
    rows = carrier_rows(k)
    mem = bytes(i & 0xff for i in range(0x8001))
    attrs = {'planes': 4, 'alpha': True, 'greyscale': False, 'bitdepth': 8}
    res.evaluations += 1
    res.nontriv(('stego', k))
    case = {'kind': 'stego', 'k': k}
    try:
        new = p8png.get_pngdata_from_picodata(mem, [bytes(r) for r in rows], attrs)
        new = [bytes(r) for r in new]
    except Exception as e:
        res.violation('C16|stego|pack|raise|%s' % type(e).__name__, 'get_pngdata_from_picodata raised %r' % e, case)
        return
    ref = rc.stego_pack(mem, 160, 205, [bytes(r) for r in rows])
    if new != ref:
        y = next(i for i in range(205) if i >= len(new) or new[i] != ref[i])
        if y >= len(new) or len(new[y]) != len(ref[y]):
            res.violation('C16|stego|pack|shape', 'packed image has wrong shape', case)
        else:
            j = next(i for i in range(640) if new[y][i] != ref[y][i])
            res.violation('C16|stego|pack|channel-%s' % 'RGBA'[j % 4],
                          'pixel %d channel %s: picotool %#x, format %#x (memory byte %#x, carrier %#x)' % (
                              y * 160 + j // 4, 'RGBA'[j % 4], new[y][j], ref[y][j],
                              mem[y * 160 + j // 4] if y * 160 + j // 4 < len(mem) else -1, rows[y][j]), case)
    # unpack direction on the reference image
    try:
        got = p8png.get_picodata_from_pngdata(160, 205, ref, attrs)
    except Exception as e:
        res.violation('C16|stego|unpack|raise|%s' % type(e).__name__, 'get_picodata_from_pngdata raised %r' % e, case)
        return
    want = rc.stego_unpack(160, 205, 4, ref)
    got = bytes(got)
    if got != want:
        i = next(i for i in range(len(want)) if i >= len(got) or got[i] != want[i])
        res.violation('C16|stego|unpack|bits', 'pixel %d: picotool read %#x, format says %#x' % (
            i, got[i] if i < len(got) else -1, want[i]), case)
    res.count('stego_value_carrier_pairs_per_channel', 128 * 256)
    res.outcome(('stego', k))


from lib.carts import make_game as _mk, region_fills  # noqa: E402


def make_game(fills, version=8, code=b''):
    return _mk(fills, version=version, code_lines=[code] if code else [])


def check_png_whole(variant, seed, res):
    """Whole writer and reader against the reference container code (memory map, PNG validity)."""
    from pico8.game.formatter.p8png import P8PNGFormatter
    fills = region_fills(variant, seed)
    version = [8, 0, 41][variant % 3]
    code = b'-- v%d\nx=1 y=2 print(x+y) -- filler so the code is a little longer\nfoo=x+y foo=x+y foo=x+y\n' % variant
    case = {'kind': 'png', 'variant': variant, 'seed': seed}
    res.evaluations += 1
    res.nontriv(('png', variant, seed))
    g = make_game(fills, version=version, code=code)
    buf = io.BytesIO()
    try:
        P8PNGFormatter.to_file(g, buf, filename='x.p8.png')
    except Exception as e:
        res.violation('C16|png|write|raise|%s' % type(e).__name__, 'P8PNGFormatter.to_file raised %r' % e, case)
        return
    try:
        w, h, planes, rows = rc.png_decode(buf.getvalue())
        mem = rc.stego_unpack(w, h, planes, rows)
    except Exception as e:
        res.violation('C16|png|write|invalid-png', 'reference PNG decoder rejects the written file: %r' % e, case)
        return
    m = rc.split_memory(mem)
    for name, _ in rc.REGION_ORDER:
        if m[name] != fills[name]:
            res.violation('C16|png|write|memory-map|%s' % name,
                          'region %s is not at its PICO-8 address in the written .p8.png' % name, case)
    if m['version'] != version:
        res.violation('C16|png|write|version', 'version byte at 0x8000 is %d, cart version %d' % (m['version'], version),
                      case)
    # reader direction: a reference-built PNG
    mem2 = bytearray(0x8001)
    for name, (lo, hi) in rc.REGION_ORDER:
        mem2[lo:hi] = fills[name]
    raw_code = b'print(%d)' % variant
    mem2[0x4300:0x4300 + len(raw_code)] = raw_code
    mem2[0x8000] = version
    img = rc.png_encode_rgba(160, 205, rc.stego_pack(bytes(mem2), 160, 205, [bytes(r) for r in carrier_rows(variant % 2)]))
    try:
        g2 = P8PNGFormatter.from_file(io.BytesIO(img), filename='ref.p8.png')
    except Exception as e:
        res.violation('C16|png|read|raise|%s' % type(e).__name__, 'P8PNGFormatter.from_file raised %r' % e, case)
        return
    for name, _ in rc.REGION_ORDER:
        if bytes(getattr(g2, name).to_bytes()) != fills[name]:
            res.violation('C16|png|read|memory-map|%s' % name,
                          'region %s read from the wrong address of a reference-built .p8.png' % name, case)
    if g2.version != version:
        res.violation('C16|png|read|version', 'version read %r, file has %d' % (g2.version, version), case)
    code_back = b''.join(g2.lua.to_lines())
    if code_back.rstrip(b'\n') != raw_code:
        res.violation('C16|png|read|code', 'raw code read %r, file has %r' % (code_back, raw_code), case)
    res.outcome(('png', variant))


def check_testdata(base, res):
    """The same cart saved by PICO-8 as .p8 and .p8.png loads to identical contents."""
    from pico8.game import file as p8file
    td = os.path.join(REPO, 'tests', 'testdata')
    a = os.path.join(td, base + '.p8')
    b = os.path.join(td, base + '.p8.png')
    case = {'kind': 'testdata', 'base': base}
    res.evaluations += 1
    res.nontriv(('td', base))
    try:
        ga = p8file.from_file(a)
        gb = p8file.from_file(b)
    except Exception as e:
        res.violation('C16|testdata|raise|%s|%s' % (base, type(e).__name__), 'loading %s raised %r' % (base, e), case)
        return
    for name, _ in rc.REGION_ORDER:
        x = bytes(getattr(ga, name).to_bytes())
        y = bytes(getattr(gb, name).to_bytes())
        if name == 'music':
            y = bytes((v & 0x7f) if i % 4 == 3 else v for i, v in enumerate(y))
        if x != y:
            res.violation('C16|testdata|%s|%s' % (base, name),
                          '%s: region %s differs between the .p8 and the .p8.png of the same cart' % (base, name), case)
    if ga.version != gb.version:
        res.violation('C16|testdata|%s|version' % base, 'versions differ %r %r' % (ga.version, gb.version), case)
    ca = b''.join(ga.lua.to_lines()).rstrip(b'\n')
    cb = b''.join(gb.lua.to_lines()).rstrip(b'\n')
    if ca != cb:
        res.violation('C16|testdata|%s|code' % base, 'code differs between .p8 and .p8.png', case)
    res.outcome(('td', base))



# ---------------------------------------------------------------- whole .p8 files as PICO-8 writes them
P8_SECTION_ORDER = ['gfx', 'label', 'gff', 'map', 'sfx', 'music']
ROW_BYTES = {'gfx': 64, 'label': 64, 'gff': 128, 'map': 128, 'sfx': 68, 'music': 4}


def pico8_defaults():
    """Region contents of a cart nobody edited: taken from the PICO-8-written tests/testdata/empty.p8.png through the
    reference PNG decoder (so 'what a left-out section / left-out trailing rows mean' is PICO-8's own answer)."""
    data = open(os.path.join(REPO, 'tests', 'testdata', 'empty.p8.png'), 'rb').read()
    w, h, planes, rows = rc.png_decode(data)
    m = rc.split_memory(rc.stego_unpack(w, h, planes, rows))
    return {name: m[name] for name, _ in rc.REGION_ORDER}


def sparse_file(present, keep_rows, seed, salt, label, version, blank_after=('gfx', 'label', 'music')):
    """A .p8 file in the shape PICO-8 saves: only the sections in `present`, each with its first keep_rows[name] rows
    (the rows after them hold the never-edited default and are left out). Returns (file bytes, expected regions,
    expected label or None)."""
    from lib.carts import seeded_region
    dflt = pico8_defaults()
    out = [rc.P8_HEADER, b'version %d\n' % version, b'__lua__\n', b'x=%d\n' % salt]
    want = {}
    enc = dict(REF_ROWS)
    enc['label'] = rc.gfx_rows
    lab = None
    for name in P8_SECTION_ORDER:
        if name == 'label':
            if label:
                lab = bytes((b & 0x0f) | ((b >> 2) & 0xf0) for b in seeded_region(0x2000, seed, salt * 7 + 5))
                out.append(b'__label__\n' + b''.join(r.encode() + b'\n' for r in rc.gfx_rows(lab)))
                if 'label' in blank_after:
                    out.append(b'\n')
            continue
        size = dict((n, hi - lo) for n, (lo, hi) in rc.REGION_ORDER)[name]
        if name not in present:
            want[name] = dflt[name]
            continue
        nrows = size // ROW_BYTES[name]
        k = min(nrows, keep_rows.get(name, nrows))
        busy = bytearray(seeded_region(size, seed, salt * 11 + len(name)))
        if name == 'music':
            for i in range(3, size, 4):
                busy[i] &= 0x7f
        mem = bytes(busy[:k * ROW_BYTES[name]]) + dflt[name][k * ROW_BYTES[name]:]
        want[name] = mem
        rows_txt = enc[name](mem)[:k]
        out.append(b'__' + name.encode() + b'__\n' + b''.join(r.encode() + b'\n' for r in rows_txt))
        if name in blank_after:
            out.append(b'\n')
    return b''.join(out), want, lab


def file_cases(tier):
    """(tag, present sections, rows kept, label) — every subset of the five data sections, whole and truncated."""
    names = [n for n, _ in rc.REGION_ORDER]
    cases = []
    for mask in range(32):
        present = tuple(n for i, n in enumerate(names) if mask >> i & 1)
        cases.append(('subset-%02d-full' % mask, present, {}, mask % 3 == 0))
        cases.append(('subset-%02d-short' % mask, present, {'gfx': 5, 'map': 3, 'gff': 1, 'sfx': 2, 'music': 3}, mask % 3 == 1))
    if tier == 'thorough':
        for mask in range(32):
            present = tuple(n for i, n in enumerate(names) if mask >> i & 1)
            cases.append(('subset-%02d-one-row' % mask, present, {'gfx': 1, 'map': 1, 'gff': 1, 'sfx': 1, 'music': 1}, mask % 2 == 0))
    return cases


def check_files(tier, seed, order, res):
    """Reads the sparse files one after the other IN ONE PROCESS (order: 0 as listed, 1 reversed, 2 full carts
    interleaved with sparse ones, 3 through one multi-file `p8tool stats` call first), each through file.from_file on
    a real path; every read must give the file's own contents."""
    import tempfile
    from pico8.game import file as p8file
    cases = file_cases(tier)
    if order == 1:
        cases = cases[::-1]
    elif order >= 2:
        full = [c for c in cases if len(c[1]) == 5 and not c[2]][0]
        mixed = []
        for c in cases:
            mixed += [full, c]
        cases = mixed
    d = tempfile.mkdtemp(prefix='c16files_')
    paths = []
    for i, (tag, present, keep, label) in enumerate(cases):
        # blank lines at section ends: where PICO-8 / picotool's writer put them, after every section, or nowhere
        blank = [('gfx', 'label', 'music'), tuple(P8_SECTION_ORDER), ()][(i // 2 + order) % 3]
        data, want, lab = sparse_file(present, keep, seed, i % 7 + 1, label, [8, 0, 16, 29, 1, 41, 255][i % 7], blank_after=blank)
        if i % 3 == 2:
            # the file as an editor / a script leaves it: no newline (and no blank line) at its very end
            data = data.rstrip(b'\n')
        pth = os.path.join(d, 'f%03d.p8' % i)
        open(pth, 'wb').write(data)
        paths.append((pth, tag, want, lab, [8, 0, 16, 29, 1, 41, 255][i % 7]))
    if order == 3:
        from pico8 import tool
        try:
            tool.main(['--quiet', 'stats'] + [p_[0] for p_ in paths[:40]])
        except SystemExit:
            pass
    for pth, tag, want, lab, version in paths:
        res.evaluations += 1
        res.nontriv(('file', tag, order))
        case = {'kind': 'files', 'tier': tier, 'seed': seed, 'order': order, 'tag': tag}
        try:
            g = p8file.from_file(pth)
        except Exception as e:
            res.violation('C16|file|raise|%s' % type(e).__name__, 'loading the .p8 file %s raised %r' % (tag, e), case)
            continue
        for name, _ in rc.REGION_ORDER:
            got = bytes(getattr(g, name).to_bytes())
            if name == 'music':
                got = bytes((x & 0x7f) if i % 4 == 3 else x for i, x in enumerate(got))
            if got != want[name]:
                how = 'present' if name in tag else 'section'
                off = next((i for i in range(min(len(got), len(want[name]))) if got[i] != want[name][i]), min(len(got), len(want[name])))
                res.violation('C16|file|%s|%s' % (name, 'size' if len(got) != len(want[name]) else 'content'),
                              '.p8 file %s (read order %d): region %s differs from what the file says at offset %#x '
                              '(read %d bytes, file + PICO-8 defaults give %d bytes)' % (tag, order, name, off, len(got), len(want[name])), case)
        # the map's lower half lives in gfx memory: read through the Map object of the loaded cart (every cell of rows
        # 32..63, and rows 0..31 from the map region)
        try:
            bad = None
            for y in range(64):
                for x in range(128):
                    w_ = want['gfx'][0x1000 + (y - 32) * 128 + x] if y >= 32 else want['map'][y * 128 + x]
                    if g.map.get_cell(x, y) != w_:
                        bad = (x, y, g.map.get_cell(x, y), w_)
                        break
                if bad:
                    break
            if bad:
                res.violation('C16|file|map-cell|%s' % ('rows32-63' if bad[1] >= 32 else 'rows0-31'),
                              '.p8 file %s (read order %d): map cell (%d,%d) reads %#x, the file\'s bytes say %#x' % ((tag, order) + bad), case)
        except Exception as e:
            res.violation('C16|file|map-cell|raise|%s' % type(e).__name__, '.p8 file %s: Map.get_cell raised %r' % (tag, e), case)
        glab = getattr(g, 'label', None)
        glab_b = bytes(glab.to_bytes()) if glab is not None else None
        if (lab is None) != (glab_b is None) or (lab is not None and glab_b != lab):
            res.violation('C16|file|label', '.p8 file %s (read order %d): label %s, the file %s' % (
                tag, order, 'absent' if glab_b is None else 'present', 'has none' if lab is None else 'has one (or its pixels differ)'), case)
        if g.version != version:
            res.violation('C16|file|version', '.p8 file %s: version read %r, file says %d' % (tag, g.version, version), case)
        res.outcome(('file', len(want)))
    import shutil
    shutil.rmtree(d, ignore_errors=True)


# ---------------------------------------------------------------- one Game written several times
def check_rewrites(variant, seed, res):
    """Every sequence of <= 3 writes over {.p8, .p8.png} of ONE Game object: each file must be what a fresh, equal
    Game gives when written once in that format, and the Game's regions must be untouched by writing."""
    import itertools
    from pico8.game.formatter.p8 import P8Formatter
    from pico8.game.formatter.p8png import P8PNGFormatter
    fills = region_fills(variant, seed)
    fills['music'] = bytes((b & 0x7f) if i % 4 == 3 else b for i, b in enumerate(fills['music']))
    code = b'-- rewrite %d\nx=1 y=2 print(x+y) foo=x+y foo=x+y foo=x+y\n' % variant

    def write(g, fmt):
        buf = io.BytesIO()
        (P8Formatter if fmt == 'p8' else P8PNGFormatter).to_file(g, buf, filename='x.' + fmt)
        return buf.getvalue()

    def content(data, fmt):
        if fmt == 'p8':
            return data
        w, h, planes, rows = rc.png_decode(data)
        return rc.stego_unpack(w, h, planes, rows)[:0x8001]
    single = {}
    for fmt in ('p8', 'png'):
        single[fmt] = content(write(make_game(fills, version=33, code=code), fmt), fmt)
    for n in (1, 2, 3):
        for seq in itertools.product(('p8', 'png'), repeat=n):
            g = make_game(fills, version=33, code=code)
            for step, fmt in enumerate(seq):
                res.evaluations += 1
                res.nontriv(('rewrite', variant, seq[:step + 1]))
                case = {'kind': 'rewrite', 'variant': variant, 'seed': seed}
                hist = '+'.join(seq[:step + 1])
                try:
                    data = content(write(g, fmt), fmt)
                except Exception as e:
                    res.violation('C16|rewrite|raise|%s|%s' % (type(e).__name__, hist),
                                  'writing one Game as %s: the last write raised %r' % (hist, e), case)
                    break
                if data != single[fmt]:
                    res.violation('C16|rewrite|output|%s' % hist,
                                  'one Game written as %s: the last file differs from what a fresh equal Game gives when '
                                  'written once as %s (%d vs %d bytes of content)' % (hist, fmt, len(data), len(single[fmt])), case)
                    break
                bad = [name for name, _ in rc.REGION_ORDER if bytes(getattr(g, name).to_bytes()) != fills[name]]
                if bad:
                    res.violation('C16|rewrite|game-mutated|%s|%s' % (bad[0], hist),
                                  'after writing the Game as %s its %s region holds %d bytes / other contents (was %d bytes)' % (
                                      hist, bad[0], len(getattr(g, bad[0]).to_bytes()), len(fills[bad[0]])), case)
                    break
            else:
                res.outcome(('rewrite', seq))
    # writes with edits in between: what is written always encodes the memory as it is NOW (no row text kept from an
    # earlier write); every way of changing memory: each accessor, the map's rows 32-63 (they live in gfx memory), raw
    # cart-memory writes
    edits = [('map.set_cell(5, 40, 0x9c)', lambda g: g.map.set_cell(5, 40, 0x9c)),
             ('map.set_rect_tiles rows 31-33', lambda g: g.map.set_rect_tiles([[1, 2, 3], [4, 5, 6], [7, 8, 9]], 100, 31)),
             ('write_cart_data 0x0ffe..0x1002', lambda g: g.write_cart_data(b'\x12\x34\x56\x78', 0x0ffe)),
             ('write_cart_data 0x2ffe..0x3202', lambda g: g.write_cart_data(bytes((i * 7 + 1) & 0xff for i in range(0x204)), 0x2ffe)),
             ('gfx.set_sprite(17, ...)', lambda g: g.gfx.set_sprite(17, [[(x + y) % 16 for x in range(8)] for y in range(8)])),
             ('gff.set_flags(3, 0xa5)', lambda g: g.gff.set_flags(3, 0xa5)),
             ('sfx.set_note(2, 3, ...)', lambda g: g.sfx.set_note(2, 3, pitch=40, waveform=9, volume=5, effect=3)),
             ('sfx.set_properties(7, ...)', lambda g: g.sfx.set_properties(7, editor_mode=1, note_duration=9, loop_start=2, loop_end=30)),
             ('music.set_channel(1, 2, 33)', lambda g: g.music.set_channel(1, 2, 33)),
             ('music.set_properties(0, ...)', lambda g: g.music.set_properties(0, begin=True, end=False, stop=True))]
    for first in ('p8', 'png'):
        g = make_game(fills, version=33, code=code)
        try:
            write(g, first)
            for name, edit in edits:
                edit(g)
                now = {n: bytes(getattr(g, n).to_bytes()) for n, _ in rc.REGION_ORDER}
                now['music'] = bytes((b & 0x7f) if i % 4 == 3 else b for i, b in enumerate(now['music']))
                for fmt in ('p8', 'png'):
                    res.evaluations += 1
                    res.nontriv(('edit-rewrite', variant, first, name, fmt))
                    got = content(write(g, fmt), fmt)
                    fresh = make_game(now, version=33, code=code)
                    want = content(write(fresh, fmt), fmt)
                    if fmt == 'png':
                        gm, wm = bytearray(got), bytearray(want)
                        for i in range(0x3103, 0x3200, 4):
                            gm[i] &= 0x7f
                            wm[i] &= 0x7f
                        got, want = bytes(gm), bytes(wm)
                    if got != want:
                        res.violation('C16|rewrite|stale-after-edit|%s|%s' % (name.split('(')[0].split(' ')[0], fmt),
                                      'Game written as %s, then %s, then written as %s: the file does not encode the memory as it is now '
                                      '(a fresh Game holding the same bytes gives another file)' % (first, name, fmt),
                                      {'kind': 'rewrite', 'variant': variant, 'seed': seed})
                        raise StopIteration
        except StopIteration:
            pass
        except Exception as e:
            res.violation('C16|rewrite|edit-raise|%s' % type(e).__name__, 'write / edit / write history raised %r' % (e,),
                          {'kind': 'rewrite', 'variant': variant, 'seed': seed})

# ---------------------------------------------------------------- driver
SFX_SPECIAL_HEADERS = [(0, 16, 0, 0), (0, 1, 0, 0), (0, 0, 0, 0), (1, 16, 0, 0), (0, 16, 0, 1), (0, 32, 0, 0)]
MUSIC_SPECIAL_ROWS = [(0x41, 0x42, 0x43, 0x44), (0, 0, 0, 0), (0x40, 0x40, 0x40, 0x40), (0, 1, 2, 3), (0xc1, 0x42, 0x43, 0x44)]


def default_regions(section):
    """Regions made of the rows an editor leaves behind: all-zero rows and PICO-8's 'never edited' rows, as the
    whole region and as a single row at every row position among rows that are busy."""
    out = []
    if section == 'sfx':
        busy = bytes((i * 7 + 3) & 0xff for i in range(64)) + bytes((1, 5, 2, 9))
        for hdr in SFX_SPECIAL_HEADERS:
            rec = bytes(64) + bytes(hdr)
            out.append(rec * 64)
            for pos in range(64):
                out.append(busy * pos + rec + busy * (63 - pos))
                if pos in (0, 1, 63):
                    out.append(bytes(68) * pos + rec + bytes(68) * (63 - pos))
    elif section == 'music':
        busy = bytes((0x05, 0x46, 0x07, 0x48))
        for row in MUSIC_SPECIAL_ROWS:
            rec = bytes(row)
            out.append(rec * 64)
            for pos in range(64):
                out.append(busy * pos + rec + busy * (63 - pos))
    else:
        size, rowlen = {'gfx': (0x2000, 64), 'map': (0x1000, 128), 'gff': (0x100, 128)}[section]
        nrows = size // rowlen
        busy = bytes(((i * 5 + 1) & 0xff) or 1 for i in range(rowlen))
        out.append(bytes(size))
        for pos in range(nrows):
            out.append(busy * pos + bytes(rowlen) + busy * (nrows - 1 - pos))
            out.append(bytes(rowlen) * pos + busy + bytes(rowlen) * (nrows - 1 - pos))
    return out


def shards(tier, seed):
    items = [('defaults', sec) for sec in ('sfx', 'music', 'gfx', 'map', 'gff')]
    for lo in range(0, 256, 16):
        items.append(('sfx', lo, lo + 16))
        items.append(('rot', lo, lo + 16))
    items.append(('gfx',))
    nm = len(music_regions(tier))
    step = max(1, nm // 16)
    for lo in range(0, nm, step):
        items.append(('music', tier, lo, min(nm, lo + step)))
    items.append(('pairs', tier))
    items.append(('stego', 0))
    items.append(('stego', 1))
    for v in range(3 if tier == 'quick' else 6):
        items.append(('png', v, seed))
    for base in ('test_cart', 'test_gol', 'test_cart_memdump', 'empty'):
        items.append(('td', base))
    for order in range(4):
        items.append(('files', tier, seed, order))
    for v in range(2 if tier == 'quick' else 6):
        items.append(('rewrite', v, seed))
    return items


def run_shard(item):
    res = ShardResult()
    kind = item[0]
    if kind == 'sfx':
        for r in range(item[1], item[2]):
            check_region('sfx', sfx_region(r), res)
        res.count('sfx_note_words', 2048 * (item[2] - item[1]))
        if item[1] == 0:
            res.sample({'section': 'sfx', 'first_record': bytes(sfx_region(1)[:68])})
    elif kind == 'defaults':
        regs = default_regions(item[1])
        for mem in regs:
            check_region(item[1], mem, res)
        res.count('default_row_regions', len(regs))
        res.sample({'section': item[1], 'family': 'defaults', 'mem_prefix': regs[1][:72]})
    elif kind == 'rot':
        for k in range(item[1], item[2]):
            check_region('gff', rot_region(256, k), res)
            check_region('map', rot_region(4096, k), res)
        if item[1] == 0:
            res.sample({'section': 'gff', 'mem_prefix': rot_region(256, 3)[:16]})
    elif kind == 'gfx':
        for k in (0, 1):
            check_region('gfx', gfx_region(k), res)
        res.count('gfx_value_column_pairs', 256 * 64)
        res.sample({'section': 'gfx', 'row0_prefix': bytes(gfx_region(1)[:16])})
    elif kind == 'music':
        regs = music_regions(item[1])
        for i in range(item[2], item[3]):
            check_region('music', regs[i], res)
        res.count('music_patterns', 64 * (item[3] - item[2]))
        if item[2] == 0:
            res.sample({'section': 'music', 'mem_prefix': regs[0][:16]})
    elif kind == 'pairs':
        check_region('gfx', pair_region(0x2000, 64), res)
        check_region('gff', pair_region(256, 32), res)
        check_region('map', pair_region(4096, 64), res)
        if item[1] == 'thorough':
            check_region('sfx', pair_region(4352, 68), res)
            check_region('music', pair_region(256, 4), res)
    elif kind == 'stego':
        check_stego(item[1], res)
        res.sample({'kind': 'stego', 'carrier_variant': item[1]})
    elif kind == 'png':
        check_png_whole(item[1], item[2], res)
    elif kind == 'td':
        check_testdata(item[1], res)
    elif kind == 'rewrite':
        check_rewrites(item[1], item[2], res)
        res.sample({'family': 'rewrite', 'sequences': 'all of length 1..3 over {.p8, .p8.png} on one Game object'})
    elif kind == 'files':
        check_files(item[1], item[2], item[3], res)
        if item[3] == 0:
            res.sample({'family': 'files', 'example': 'subset-05-short: only __gfx__ (5 rows) and __gff__ (1 row) present'})
    return res


def replay(case):
    res = ShardResult()
    if 'section' in case:
        check_region(case['section'], case['mem'], res)
    elif case['kind'] == 'stego':
        check_stego(case['k'], res)
    elif case['kind'] == 'png':
        check_png_whole(case['variant'], case['seed'], res)
    elif case['kind'] == 'testdata':
        check_testdata(case['base'], res)
    elif case['kind'] == 'rewrite':
        check_rewrites(case['variant'], case['seed'], res)
    elif case['kind'] == 'files':
        check_files(case['tier'], case['seed'], case['order'], res)
    return [(s, v[0]) for s, v in res.violations.items()]
