"""C16 — on-disk encodings match the PICO-8 cart formats (not merely each other).

picotool's section text codecs and PNG packer are compared, unit by unit, with the independent
reference codecs in lib/refcodec.py (validated against the PICO-8-written carts by
tools/validate_ref.py).  Every value of every unit is enumerated at every structural position.
"""
import io
import os

from lib import refcodec as rc
from lib.core import ShardResult, REPO

LEVEL = 'exploration'
RULE = ('complete unit enumeration: all 65 536 sfx note words and all 256 values of every sfx header byte, all 256 byte '
        'values at each of the 64 columns of a gfx row, all 256 values of each music byte x boundary values of the '
        'other three, all 256 values at every gff/map offset, all 256x256 (memory byte, carrier channel value) pairs in '
        'each of the four stego channels, region-distinct fills through the whole .p8.png writer/reader, both '
        'directions, plus the PICO-8-written cart pairs; a case (one region image / one PNG) is non-trivial when it '
        'contains a non-zero byte; distinct = distinct region image')
ASSUMPTIONS = ['unit independence: a region codec is a product of per-unit codecs (adjacent-unit pairs over boundary '
               'values are enumerated in addition to expose carried state)',
               'reference codecs (lib/refcodec.py) are correct; they are validated against carts written by PICO-8',
               '.p8 sections are full-size (the older format variant picotool reads and writes)']
BOUNDS = {'quick': {'music_others': '8 equal boundary values', 'adjacent_pairs': '8x8 boundary values in gfx/gff/map'},
          'thorough': {'music_others': 'all 8^3 boundary combinations', 'adjacent_pairs': '8x8 boundary values, all sections'}}



def _cls():
    from pico8.gfx.gfx import Gfx
    from pico8.gff.gff import Gff
    from pico8.map.map import Map
    from pico8.sfx.sfx import Sfx
    from pico8.music.music import Music
    return {'gfx': Gfx, 'gff': Gff, 'map': Map, 'sfx': Sfx, 'music': Music}


REF_ROWS = {
    'gfx': rc.gfx_rows,
    'gff': lambda m: rc.hex_rows(m, 128),
    'map': lambda m: rc.hex_rows(m, 128),
    'sfx': rc.sfx_rows,
    'music': rc.music_rows,
}


def unit_class(section, off):
    if section == 'sfx':
        o = off % 68
        if o >= 64:
            return 'header%d' % (o - 64)
        return 'note-lsb' if o % 2 == 0 else 'note-msb'
    if section == 'music':
        return 'chan%d' % (off % 4)
    return 'byte'


def check_region(section, mem, res, version=8, tag=''):
    """Both directions for one region image."""
    cls = _cls()[section]
    mem = bytes(mem)
    rows = REF_ROWS[section](mem)
    ref_lines = [r.encode('ascii') + b'\n' for r in rows]
    res.evaluations += 1
    if any(mem):
        res.nontriv((section, mem))
    case = {'section': section, 'mem': mem}
    # memory -> text
    try:
        obj = cls.from_bytes(bytearray(mem), version=version)
        lines = [bytes(l) for l in obj.to_lines()]
    except Exception as e:
        res.violation('C16|%s|to_lines|raise|%s' % (section, type(e).__name__),
                      '%s.to_lines raised %r' % (section, e), case)
        lines = None
    if lines is not None and lines != ref_lines:
        k = next((i for i in range(min(len(lines), len(ref_lines))) if lines[i] != ref_lines[i]), None)
        if k is None:
            sig = 'C16|%s|to_lines|rowcount' % section
            desc = '%s.to_lines wrote %d rows, format has %d' % (section, len(lines), len(ref_lines))
        else:
            a, b = lines[k], ref_lines[k]
            col = next((i for i in range(min(len(a), len(b))) if a[i] != b[i]), min(len(a), len(b)))
            sig = 'C16|%s|to_lines|%s' % (section, text_class(section, col))
            desc = '%s row %d col %d: picotool wrote %r, format prescribes %r' % (
                section, k, col, a[max(0, col - 4):col + 6], b[max(0, col - 4):col + 6])
        res.violation(sig, desc, case)
    # text -> memory
    try:
        obj2 = cls.from_lines(list(ref_lines), version=version)
        back = bytes(obj2.to_bytes())
    except Exception as e:
        res.violation('C16|%s|from_lines|raise|%s' % (section, type(e).__name__),
                      '%s.from_lines raised %r' % (section, e), case)
        return
    want = mem
    if section == 'music':
        want = bytes((x & 0x7f) if i % 4 == 3 else x for i, x in enumerate(mem))
    if back != want:
        if len(back) != len(want):
            res.violation('C16|%s|from_lines|size' % section,
                          '%s.from_lines gave %d bytes, expected %d' % (section, len(back), len(want)), case)
        else:
            off = next(i for i in range(len(want)) if back[i] != want[i])
            res.violation('C16|%s|from_lines|%s' % (section, unit_class(section, off)),
                          '%s offset %#x: picotool read %#x, format says %#x' % (section, off, back[off], want[off]),
                          case)
    res.outcome((section, rows[0][:16]))


def text_class(section, col):
    if section == 'sfx':
        if col < 8:
            return 'header%d' % (col // 2)
        return ['pitch', 'pitch', 'waveform', 'volume', 'effect'][(col - 8) % 5]
    if section == 'music':
        if col < 2:
            return 'flags'
        if col == 2:
            return 'space'
        return 'chan%d' % ((col - 3) // 2)
    if section == 'gfx':
        return 'pixel-%s' % ('even' if col % 2 == 0 else 'odd')
    return 'hexdigit-%s' % ('hi' if col % 2 == 0 else 'lo')


from lib.carts import (BV, sfx_region, gfx_region, pair_region, music_regions, rot_region)  # noqa: E402


# ---------------------------------------------------------------- PNG / stego
def carrier_rows(k):
    rows = []
    for y in range(205):
        row = bytearray(160 * 4)
        for x in range(160):
            i = y * 160 + x
            c = ((i >> 8) + 128 * k) & 0xff
            row[4 * x + 0] = c
            row[4 * x + 1] = (c + 64) & 0xff
            row[4 * x + 2] = (c + 128) & 0xff
            row[4 * x + 3] = (c + 192) & 0xff
        rows.append(row)
    return rows


def check_stego(k, res):
    from pico8.game.formatter import p8png
    rows = carrier_rows(k)
    mem = bytes(i & 0xff for i in range(0x8001))
    attrs = {'planes': 4, 'alpha': True, 'greyscale': False, 'bitdepth': 8}
    res.evaluations += 1
    res.nontriv(('stego', k))
    case = {'kind': 'stego', 'k': k}
    try:
        new = p8png.get_pngdata_from_picodata(mem, [bytes(r) for r in rows], attrs)
        new = [bytes(r) for r in new]
    except Exception as e:
        res.violation('C16|stego|pack|raise|%s' % type(e).__name__, 'get_pngdata_from_picodata raised %r' % e, case)
        return
    ref = rc.stego_pack(mem, 160, 205, [bytes(r) for r in rows])
    if new != ref:
        y = next(i for i in range(205) if i >= len(new) or new[i] != ref[i])
        if y >= len(new) or len(new[y]) != len(ref[y]):
            res.violation('C16|stego|pack|shape', 'packed image has wrong shape', case)
        else:
            j = next(i for i in range(640) if new[y][i] != ref[y][i])
            res.violation('C16|stego|pack|channel-%s' % 'RGBA'[j % 4],
                          'pixel %d channel %s: picotool %#x, format %#x (memory byte %#x, carrier %#x)' % (
                              y * 160 + j // 4, 'RGBA'[j % 4], new[y][j], ref[y][j],
                              mem[y * 160 + j // 4] if y * 160 + j // 4 < len(mem) else -1, rows[y][j]), case)
    # unpack direction on the reference image
    try:
        got = p8png.get_picodata_from_pngdata(160, 205, ref, attrs)
    except Exception as e:
        res.violation('C16|stego|unpack|raise|%s' % type(e).__name__, 'get_picodata_from_pngdata raised %r' % e, case)
        return
    want = rc.stego_unpack(160, 205, 4, ref)
    got = bytes(got)
    if got != want:
        i = next(i for i in range(len(want)) if i >= len(got) or got[i] != want[i])
        res.violation('C16|stego|unpack|bits', 'pixel %d: picotool read %#x, format says %#x' % (
            i, got[i] if i < len(got) else -1, want[i]), case)
    res.count('stego_value_carrier_pairs_per_channel', 128 * 256)
    res.outcome(('stego', k))


from lib.carts import make_game as _mk, region_fills  # noqa: E402


def make_game(fills, version=8, code=b''):
    return _mk(fills, version=version, code_lines=[code] if code else [])


def check_png_whole(variant, seed, res):
    """Whole writer and reader against the reference container code (memory map, PNG validity)."""
    from pico8.game.formatter.p8png import P8PNGFormatter
    fills = region_fills(variant, seed)
    version = [8, 0, 41][variant % 3]
    code = b'-- v%d\nx=1 y=2 print(x+y) -- filler so the code is a little longer\nfoo=x+y foo=x+y foo=x+y\n' % variant
    case = {'kind': 'png', 'variant': variant, 'seed': seed}
    res.evaluations += 1
    res.nontriv(('png', variant, seed))
    g = make_game(fills, version=version, code=code)
    buf = io.BytesIO()
    try:
        P8PNGFormatter.to_file(g, buf, filename='x.p8.png')
    except Exception as e:
        res.violation('C16|png|write|raise|%s' % type(e).__name__, 'P8PNGFormatter.to_file raised %r' % e, case)
        return
    try:
        w, h, planes, rows = rc.png_decode(buf.getvalue())
        mem = rc.stego_unpack(w, h, planes, rows)
    except Exception as e:
        res.violation('C16|png|write|invalid-png', 'reference PNG decoder rejects the written file: %r' % e, case)
        return
    m = rc.split_memory(mem)
    for name, _ in rc.REGION_ORDER:
        if m[name] != fills[name]:
            res.violation('C16|png|write|memory-map|%s' % name,
                          'region %s is not at its PICO-8 address in the written .p8.png' % name, case)
    if m['version'] != version:
        res.violation('C16|png|write|version', 'version byte at 0x8000 is %d, cart version %d' % (m['version'], version),
                      case)
    # reader direction: a reference-built PNG
    mem2 = bytearray(0x8001)
    for name, (lo, hi) in rc.REGION_ORDER:
        mem2[lo:hi] = fills[name]
    raw_code = b'print(%d)' % variant
    mem2[0x4300:0x4300 + len(raw_code)] = raw_code
    mem2[0x8000] = version
    img = rc.png_encode_rgba(160, 205, rc.stego_pack(bytes(mem2), 160, 205, [bytes(r) for r in carrier_rows(variant % 2)]))
    try:
        g2 = P8PNGFormatter.from_file(io.BytesIO(img), filename='ref.p8.png')
    except Exception as e:
        res.violation('C16|png|read|raise|%s' % type(e).__name__, 'P8PNGFormatter.from_file raised %r' % e, case)
        return
    for name, _ in rc.REGION_ORDER:
        if bytes(getattr(g2, name).to_bytes()) != fills[name]:
            res.violation('C16|png|read|memory-map|%s' % name,
                          'region %s read from the wrong address of a reference-built .p8.png' % name, case)
    if g2.version != version:
        res.violation('C16|png|read|version', 'version read %r, file has %d' % (g2.version, version), case)
    code_back = b''.join(g2.lua.to_lines())
    if code_back.rstrip(b'\n') != raw_code:
        res.violation('C16|png|read|code', 'raw code read %r, file has %r' % (code_back, raw_code), case)
    res.outcome(('png', variant))


def check_testdata(base, res):
    """The same cart saved by PICO-8 as .p8 and .p8.png loads to identical contents."""
    from pico8.game import file as p8file
    td = os.path.join(REPO, 'tests', 'testdata')
    a = os.path.join(td, base + '.p8')
    b = os.path.join(td, base + '.p8.png')
    case = {'kind': 'testdata', 'base': base}
    res.evaluations += 1
    res.nontriv(('td', base))
    try:
        ga = p8file.from_file(a)
        gb = p8file.from_file(b)
    except Exception as e:
        res.violation('C16|testdata|raise|%s|%s' % (base, type(e).__name__), 'loading %s raised %r' % (base, e), case)
        return
    for name, _ in rc.REGION_ORDER:
        x = bytes(getattr(ga, name).to_bytes())
        y = bytes(getattr(gb, name).to_bytes())
        if name == 'music':
            y = bytes((v & 0x7f) if i % 4 == 3 else v for i, v in enumerate(y))
        if x != y:
            res.violation('C16|testdata|%s|%s' % (base, name),
                          '%s: region %s differs between the .p8 and the .p8.png of the same cart' % (base, name), case)
    if ga.version != gb.version:
        res.violation('C16|testdata|%s|version' % base, 'versions differ %r %r' % (ga.version, gb.version), case)
    ca = b''.join(ga.lua.to_lines()).rstrip(b'\n')
    cb = b''.join(gb.lua.to_lines()).rstrip(b'\n')
    if ca != cb:
        res.violation('C16|testdata|%s|code' % base, 'code differs between .p8 and .p8.png', case)
    res.outcome(('td', base))


# ---------------------------------------------------------------- driver
SFX_SPECIAL_HEADERS = [(0, 16, 0, 0), (0, 1, 0, 0), (0, 0, 0, 0), (1, 16, 0, 0), (0, 16, 0, 1), (0, 32, 0, 0)]
MUSIC_SPECIAL_ROWS = [(0x41, 0x42, 0x43, 0x44), (0, 0, 0, 0), (0x40, 0x40, 0x40, 0x40), (0, 1, 2, 3), (0xc1, 0x42, 0x43, 0x44)]


def default_regions(section):
    """Regions made of the rows an editor leaves behind: all-zero rows and PICO-8's 'never edited' rows, as the
    whole region and as a single row at every row position among rows that are busy."""
    out = []
    if section == 'sfx':
        busy = bytes((i * 7 + 3) & 0xff for i in range(64)) + bytes((1, 5, 2, 9))
        for hdr in SFX_SPECIAL_HEADERS:
            rec = bytes(64) + bytes(hdr)
            out.append(rec * 64)
            for pos in range(64):
                out.append(busy * pos + rec + busy * (63 - pos))
                if pos in (0, 1, 63):
                    out.append(bytes(68) * pos + rec + bytes(68) * (63 - pos))
    elif section == 'music':
        busy = bytes((0x05, 0x46, 0x07, 0x48))
        for row in MUSIC_SPECIAL_ROWS:
            rec = bytes(row)
            out.append(rec * 64)
            for pos in range(64):
                out.append(busy * pos + rec + busy * (63 - pos))
    else:
        size, rowlen = {'gfx': (0x2000, 64), 'map': (0x1000, 128), 'gff': (0x100, 128)}[section]
        nrows = size // rowlen
        busy = bytes(((i * 5 + 1) & 0xff) or 1 for i in range(rowlen))
        out.append(bytes(size))
        for pos in range(nrows):
            out.append(busy * pos + bytes(rowlen) + busy * (nrows - 1 - pos))
            out.append(bytes(rowlen) * pos + busy + bytes(rowlen) * (nrows - 1 - pos))
    return out


def shards(tier, seed):
    items = [('defaults', sec) for sec in ('sfx', 'music', 'gfx', 'map', 'gff')]
    for lo in range(0, 256, 16):
        items.append(('sfx', lo, lo + 16))
        items.append(('rot', lo, lo + 16))
    items.append(('gfx',))
    nm = len(music_regions(tier))
    step = max(1, nm // 16)
    for lo in range(0, nm, step):
        items.append(('music', tier, lo, min(nm, lo + step)))
    items.append(('pairs', tier))
    items.append(('stego', 0))
    items.append(('stego', 1))
    for v in range(3 if tier == 'quick' else 6):
        items.append(('png', v, seed))
    for base in ('test_cart', 'test_gol', 'test_cart_memdump', 'empty'):
        items.append(('td', base))
    return items


def run_shard(item):
    res = ShardResult()
    kind = item[0]
    if kind == 'sfx':
        for r in range(item[1], item[2]):
            check_region('sfx', sfx_region(r), res)
        res.count('sfx_note_words', 2048 * (item[2] - item[1]))
        if item[1] == 0:
            res.sample({'section': 'sfx', 'first_record': bytes(sfx_region(1)[:68])})
    elif kind == 'defaults':
        regs = default_regions(item[1])
        for mem in regs:
            check_region(item[1], mem, res)
        res.count('default_row_regions', len(regs))
        res.sample({'section': item[1], 'family': 'defaults', 'mem_prefix': regs[1][:72]})
    elif kind == 'rot':
        for k in range(item[1], item[2]):
            check_region('gff', rot_region(256, k), res)
            check_region('map', rot_region(4096, k), res)
        if item[1] == 0:
            res.sample({'section': 'gff', 'mem_prefix': rot_region(256, 3)[:16]})
    elif kind == 'gfx':
        for k in (0, 1):
            check_region('gfx', gfx_region(k), res)
        res.count('gfx_value_column_pairs', 256 * 64)
        res.sample({'section': 'gfx', 'row0_prefix': bytes(gfx_region(1)[:16])})
    elif kind == 'music':
        regs = music_regions(item[1])
        for i in range(item[2], item[3]):
            check_region('music', regs[i], res)
        res.count('music_patterns', 64 * (item[3] - item[2]))
        if item[2] == 0:
            res.sample({'section': 'music', 'mem_prefix': regs[0][:16]})
    elif kind == 'pairs':
        check_region('gfx', pair_region(0x2000, 64), res)
        check_region('gff', pair_region(256, 32), res)
        check_region('map', pair_region(4096, 64), res)
        if item[1] == 'thorough':
            check_region('sfx', pair_region(4352, 68), res)
            check_region('music', pair_region(256, 4), res)
    elif kind == 'stego':
        check_stego(item[1], res)
        res.sample({'kind': 'stego', 'carrier_variant': item[1]})
    elif kind == 'png':
        check_png_whole(item[1], item[2], res)
    elif kind == 'td':
        check_testdata(item[1], res)
    return res


def replay(case):
    res = ShardResult()
    if 'section' in case:
        check_region(case['section'], case['mem'], res)
    elif case['kind'] == 'stego':
        check_stego(case['k'], res)
    elif case['kind'] == 'png':
        check_png_whole(case['variant'], case['seed'], res)
    elif case['kind'] == 'testdata':
        check_testdata(case['base'], res)
    return [(s, v[0]) for s, v in res.violations.items()]
