"""C09 — luafmt changes only whitespace, works on every valid program, never drops code.

(a) the C08 program x layout space x indent widths through LuaFormatterWriter (and a batch through the
`p8tool luafmt` CLI): no exception; the output lexes (reference lexer) to exactly the input's significant
tokens; comments survive up to inner whitespace; line-scoped constructs keep their extent; token count equal.
(b) no silent loss: every single-token deletion / insertion mutant of small programs (plus newer-syntax
samples) through every tree-driven writer and Lua.reparse: the call either raises or keeps every token.
"""
import os
import re
import shutil
import tempfile

from lib import luagen as L
from lib import reflex
from lib import core
from lib.core import ShardResult, h64
from props import c08

LEVEL = 'exploration'
RULE = ('(a) every program of the C08 space (statement kinds x <= D deviations, statement pairs, nesting, ADJ pair '
        'witnesses) in default layout x indent widths {0,2,8} (thorough 0-8) and in every other enumerated layout '
        '(tight, one deviating gap, no final newline) at a width determined by the layout index; degenerate programs; '
        'a batch through the CLI; (b) for every base program (quick: D=0 statement kinds and the first 96 statement '
        'pairs; thorough: all D<=1 programs of <= 12 tokens and all pairs) every single-token deletion and every '
        'insertion of each of 20 menu tokens at every position, through LuaASTEchoWriter, LuaFormatterWriter, '
        'LuaMinifyWriter and Lua.reparse; non-trivial = (a) program with a comment or newline inside, or >= 4 tokens; '
        '(b) mutant that lexes; distinct = distinct source text')
ASSUMPTIONS = ['string literals are compared by decoded value (the tree writers re-spell them like the echo writer, C06)',
               'LuaMinifyWriter renames identifiers and drops ";" by design: identifiers are compared by kind only and '
               '";" tokens are ignored for that writer',
               'reference lexer decides token identity in input and output']
BOUNDS = {'quick': {'widths_default_layout': [0, 2, 8], 'mutation_bases': 'D=0 kinds + 96 pairs'},
          'thorough': {'widths_default_layout': list(range(9)), 'mutation_bases': 'D<=1 programs <=12 tokens + all pairs'}}

MENU = [b'=', b')', b'(', b'end', b'|', b'?', b',', b'1', b'x', b'then', b'do', b'..', b'"s"', b'{', b'}', b'local',
        b'return', b'::', b'.', b'not']
NEWER = [b'x=1 end', b'x=1 )', b'x=1\ny=2 }', b'f() until', b'x=1 ?', b'a |= 1\nb = 2\n', b'x=1\na |= 1\ny=2\n', b'?x,y\n', b'local x <const> = 1\ny = 2\n', b'a ^^= 2\nb=1\n',
         b'x = 1 y = = 2\n', b'a = 1\n#include foo.lua\nb = 2\n', b'while (a) b=1\nc=2\n', b'a \\= 2\nc = 3\n',
         b'x=1 )\ny=2\n', b'f(\n', b'a.b.c\nd=1\n']


def lua_mod():
    from pico8.lua import lua
    return lua


def sig_tokens(src):
    return reflex.significant(reflex.lex(src))


def key(t):
    return reflex.sig_key(t)


def collapse(c):
    return re.sub(br'\s+', b'', c)


def fmt(src, width, chunks=None):
    lua = lua_mod()
    obj = lua.Lua.from_lines(chunks or [src], version=core.lua_version(src))
    out = b''.join(obj.to_lines(writer_cls=lua.LuaFormatterWriter, writer_args={'indentwidth': width}))
    return obj, out


def check_format(prog, src, width, res, desc, family):
    lua = lua_mod()
    res.evaluations += 1
    case = {'src': src, 'width': width, 'family': family}
    try:
        intoks = reflex.lex(src)
    except reflex.Reject:
        res.count('rejected_by_reference')
        return None
    insig = reflex.significant(intoks)
    if len(insig) >= 4 or any(t.kind == 'comment' for t in intoks):
        res.nontriv((src, width))
    qp = prog is not None and c08.has_qprint(prog.skeleton)
    tail = 'qprint' if qp else (c08.stat_kinds(prog) if prog is not None else 'degenerate')
    chunks = None
    if desc in ('lines', 'token-per-line'):
        parts = src.split(b'\n')
        chunks = [p_ + b'\n' for p_ in parts[:-1]] + ([parts[-1]] if parts[-1] else [])
    try:
        obj, out = fmt(src, width, chunks)
    except Exception as e:
        res.violation('C09|raise|%s|%s|%s' % (type(e).__name__, 'no-final-newline' if not src.endswith((b'\n', b' ')) else 'nl',
                                               tail),
                      'luafmt of valid program %r raised %s: %s' % (src, type(e).__name__, e), case)
        return None
    try:
        outtoks = reflex.lex(out)
    except reflex.Reject as e:
        res.violation('C09|output-unlexable|%s' % tail, 'luafmt of %r gives %r which does not lex: %s' % (src, out, e), case)
        return None
    outsig = reflex.significant(outtoks)
    a = [key(t) for t in insig]
    b = [key(t) for t in outsig]
    if a != b:
        i = next((i for i in range(min(len(a), len(b))) if a[i] != b[i]), min(len(a), len(b)))
        kind = 'tokens-dropped' if len(b) < len(a) and b == a[:len(b)] else 'tokens-changed'
        res.violation('C09|%s|%s' % (kind, tail),
                      'luafmt of %r gives %r: token %d is %r, input has %r (%d vs %d tokens)' % (
                          src, out, i, b[i] if i < len(b) else None, a[i] if i < len(a) else None, len(b), len(a)), case)
        return None
    ca = [collapse(t.text) for t in intoks if t.kind == 'comment']
    cb = [collapse(t.text) for t in outtoks if t.kind == 'comment']
    if ca != cb:
        res.violation('C09|comments|%s' % ('count' if len(ca) != len(cb) else 'text'),
                      'luafmt of %r gives %r: comments %r became %r' % (src, out, ca, cb), case)
        return None
    # line-scoped constructs keep their extent
    if prog is not None and prog.scopes:
        exp = L.expected_ref_tokens(prog)
        # map program token index -> index into reference significant tokens (labels expand to 3)
        idx = []
        k = 0
        for t in prog.toks:
            idx.append(k)
            k += 3 if t.cls.startswith('LABEL') else 1
        lines = [t.line for t in outsig]
        for (f, l) in prog.scopes:
            fi, li = idx[f], idx[l]
            if len(set(lines[fi:li + 1])) != 1:
                res.violation('C09|scope-split|%s' % tail,
                              'luafmt of %r gives %r: the line-scoped construct is split over lines' % (src, out), case)
                return None
            if li + 1 < len(lines) and lines[li + 1] == lines[li]:
                res.violation('C09|scope-extended|%s' % tail,
                              'luafmt of %r gives %r: code following the line-scoped construct joined its line' % (src, out),
                              case)
                return None
    # token count reported by stats (needs a full re-parse of the output: only on the base layouts)
    if desc not in ('default', 'lines', 'tight', 'degenerate', 'replay', 'no-final-newline'):
        res.outcome((tail, desc, width))
        return out
    if desc in ('default', 'degenerate'):
        # the same parsed object walked again (the .p8 writer formats twice: once for its sanity re-parse, once to write;
        # `build` re-uses trees): a walk may not change the tree, the token list or the caller's option dict
        args = {'indentwidth': width}
        try:
            again = b''.join(obj.to_lines(writer_cls=lua.LuaFormatterWriter, writer_args=args))
            third = b''.join(obj.to_lines(writer_cls=lua.LuaFormatterWriter, writer_args=args))
            echo = b''.join(obj.to_lines(writer_cls=lua.LuaASTEchoWriter))
            fresh = lua.Lua.from_lines(chunks or [src], version=core.lua_version(src))
            plain = b''.join(fresh.to_lines(writer_cls=lua.LuaASTEchoWriter))
        except Exception as e:
            res.violation('C09|rewalk|raise|%s|%s' % (type(e).__name__, tail),
                          'formatting %r once works, walking the same parsed object again raises %s: %s' % (src, type(e).__name__, e), case)
            return None
        if again != out or third != out or args != {'indentwidth': width}:
            res.violation('C09|rewalk|differs|%s' % tail,
                          'luafmt of %r gives %r the first time and %r / %r when the same object is formatted again with the same '
                          'option dict (now %r)' % (src, out, again, third, args), case)
            return None
        if echo != plain:
            res.violation('C09|rewalk|tree-changed|%s' % tail,
                          'after formatting %r the tree-driven echo writer gives %r; on a freshly parsed object it gives %r' % (src, echo, plain), case)
            return None
    try:
        n_in = obj.get_token_count()
        n_out = lua.Lua.from_lines([out], version=8).get_token_count()
        if n_in != n_out:
            res.violation('C09|token-count|%s' % tail, 'token count %d -> %d for %r' % (n_in, n_out, src), case)
    except Exception as e:
        res.violation('C09|output-unparsable|%s|%s' % (type(e).__name__, tail),
                      'luafmt output %r of %r does not load: %s' % (out, src, e), case)
        return None
    res.outcome((tail, desc, width))
    return out


DEGENERATE = [b'', b'\n', b'  ', b'\n\n\n', b'-- c', b'-- c\n', b'--[[ a\nb ]]', b'--[[ a\nb ]]\n', b'x=1', b'x=1 ', b'x=1 -- c',
              b'// c\n', b'\t', b'x=1\n\n\n', b'-- a\n-- b\n', b';', b';;\n', b'x=1;', b'return', b'return 1', b'f()',
              b'::g::', b'do end', b'if (a) b=1', b'if (a) b=1 else c=2', b'if (a) b=1 -- c',
              # multi-line literals whose inner lines end in blanks / TABs, or are blank: the literal's value is the text
              b'rows=[[\n##  \n#   \n####]]\n', b'print[==[score: \nlives: \t\n]==]\n', b'do\n s=[[ \n\t\n  ]]\nend\n',
              b'if a then\n f([=[x \n  y\t \n]=], "a \\\n b  ")\nend\n', b's="a  \\\n  b"\n', b'x=[[a\r\n  b  \r\n]]\n']


# ---------------------------------------------------------------- (b) no silent loss
def writers():
    lua = lua_mod()
    return [('LuaASTEchoWriter', lua.LuaASTEchoWriter, None), ('LuaFormatterWriter', lua.LuaFormatterWriter, {'indentwidth': 2}),
            ('LuaMinifyWriter', lua.LuaMinifyWriter, None)]


def loss_keys(toks, minify):
    out = []
    for t in toks:
        if minify:
            if t.kind == 'symbol' and t.text == b';':
                continue
            if t.kind == 'name':
                out.append(('name',))
                continue
        out.append(key(t))
    return out


def check_no_loss(src, res, origin):
    """Validity-agnostic: each tree-driven rewrite either raises or keeps every token."""
    lua = lua_mod()
    try:
        insig = sig_tokens(src)
    except reflex.Reject:
        res.count('mutants_rejected_by_reference')
        return
    res.evaluations += 1
    res.nontriv(src)
    case = {'src': src, 'origin': origin}
    try:
        obj = lua.Lua.from_lines([src], version=8)
    except Exception:
        res.outcome(('load-raises',))
        return
    for wname, wcls, wargs in writers() + [('reparse', None, None)]:
        try:
            if wname == 'reparse':
                o2 = lua.Lua.from_lines([src], version=8)
                o2.reparse(writer_cls=lua.LuaASTEchoWriter)
                out = b''.join(o2.to_lines())
            else:
                out = b''.join(obj.to_lines(writer_cls=wcls, writer_args=wargs))
        except Exception:
            res.outcome((wname, 'raises'))
            continue
        minify = wname == 'LuaMinifyWriter'
        try:
            outsig = sig_tokens(out)
        except reflex.Reject as e:
            res.violation('C09|loss|%s|output-unlexable' % wname,
                          '%s on %r returned %r which does not lex' % (wname, src, out), case)
            continue
        a = loss_keys(insig, minify)
        b = loss_keys(outsig, minify)
        if a != b:
            if len(b) < len(a) and b == a[:len(b)]:
                res.violation('C09|loss|%s|truncated' % wname,
                              '%s on %r returned normally with %r: %d of %d tokens written, the rest silently dropped' % (
                                  wname, src, out, len(b), len(a)), case)
            else:
                res.violation('C09|loss|%s|changed' % wname,
                              '%s on %r returned %r: tokens differ (%d vs %d)' % (wname, src, out, len(b), len(a)), case)
            continue
        res.outcome((wname, 'kept'))


def mutation_bases(tier):
    progs = []
    if tier == 'quick':
        for tree in L.stat_programs(0):
            progs.append(tree)
        for i, tree in enumerate(c08.fam_seq()):
            if i >= 96:
                break
            progs.append(tree)
    else:
        for tree in L.stat_programs(1):
            progs.append(tree)
        for tree in c08.fam_seq():
            progs.append(tree)
    return progs


def mutants(prog):
    toks = [t.text for t in prog.toks]
    n = len(toks)

    def text(ts, nl_at):
        out = []
        for i, t in enumerate(ts):
            out.append(t)
            out.append(b'\n' if i + 1 in nl_at else b' ')
        return b''.join(out).rstrip(b' ') + b'\n'
    for i in range(n):
        ts = toks[:i] + toks[i + 1:]
        nl = {g - 1 if g > i else g for g in prog.must_nl}
        yield text(ts, nl), ('delete', i)
        yield text(ts, nl).rstrip(b'\n'), ('delete-nofinalnl', i)
    for i in range(n + 1):
        for m in MENU:
            ts = toks[:i] + [m] + toks[i:]
            nl = {g + 1 if g > i else g for g in prog.must_nl}
            yield text(ts, nl), ('insert', i)
            if i >= n - 1:
                # an unparsed tail of one token at the very end of the input, no newline after it
                yield text(ts, nl).rstrip(b'\n'), ('insert-nofinalnl', i)


# ---------------------------------------------------------------- CLI batch
def cli_batch(res, tier):
    from pico8 import tool
    from pico8.game import file as p8file
    lua = lua_mod()
    d = tempfile.mkdtemp(prefix='c09_')
    try:
        n = 0
        for i, tree in enumerate(L.stat_programs(1)):
            if i % (40 if tier == 'quick' else 8) != 0:
                continue
            prog = L.render(tree)
            if prog is None or not prog.toks:
                continue
            src = L.assemble(prog, {})
            width = (0, 2, 4, 8)[n % 4]
            n += 1
            path = os.path.join(d, 'c%d.p8' % n)
            from lib import carts
            res.evaluations += 1
            case = {'src': src, 'width': width, 'cli': True}
            try:
                g = carts.make_game({}, version=33, code_lines=[src])
                p8file.to_file(g, path)
            except Exception as e:
                res.violation('C09|cli|cart-raise|%s' % type(e).__name__,
                              'the valid program %r cannot be put into a cart: %r' % (src, e), case)
                continue
            # how the command is run rotates: absolute path; relative path from the directory; under --debug; on a
            # .p8.png copy of the cart; several carts in one command
            how = ('abs', 'rel', 'debug', 'png', 'multi')[n % 5]
            case['how'] = how
            cwd0 = os.getcwd()
            from pico8 import util
            try:
                if how == 'rel':
                    os.chdir(d)
                    rc_ = tool.main(['luafmt', '--indentwidth', str(width), 'c%d.p8' % n])
                elif how == 'debug':
                    rc_ = tool.main(['--debug', 'luafmt', '--indentwidth', str(width), path])
                elif how == 'png':
                    pathpng = os.path.join(d, 'c%d.p8.png' % n)
                    p8file.to_file(g, pathpng)
                    rc_ = tool.main(['luafmt', '--indentwidth', str(width), pathpng])
                elif how == 'multi':
                    other = os.path.join(d, 'other%d.p8' % n)
                    p8file.to_file(carts.make_game({}, version=33, code_lines=[b'-- other\nif x then\ny=1\nend\n']), other)
                    rc_ = tool.main(['luafmt', '--indentwidth', str(width), other, path, other])
                else:
                    rc_ = tool.main(['luafmt', '--indentwidth', str(width), path])
            except Exception as e:
                res.violation('C09|cli|raise|%s' % type(e).__name__, 'p8tool luafmt (%s) on %r raised %r' % (how, src, e), case)
                continue
            finally:
                os.chdir(cwd0)
                util.set_verbosity(util.VERBOSITY_QUIET)
            outp = os.path.join(d, 'c%d_fmt.p8%s' % (n, '.png' if how == 'png' else ''))
            if rc_ != 0 or not os.path.exists(outp):
                res.violation('C09|cli|failed', 'p8tool luafmt on %r returned %r' % (src, rc_), case)
                continue
            code = b''.join(p8file.from_file(outp).lua.to_lines())
            try:
                _, want = fmt(src, width)
            except Exception:
                continue
            if how == 'png':
                want = want.replace(b'\r', b' ')
            if code.rstrip(b'\n') != want.rstrip(b'\n'):
                res.violation('C09|cli|differs-from-writer|%s' % how, 'p8tool luafmt --indentwidth %d (%s) on %r wrote %r, the writer gives %r'
                              % (width, how, src, code, want), case)
            res.nontriv(('cli', src, width))
        res.count('cli_runs', n)
    finally:
        shutil.rmtree(d, ignore_errors=True)


# ---------------------------------------------------------------- driver
def shards(tier, seed):
    items = c08.program_shards(tier, seed, tag='c09')
    nb = len(mutation_bases(tier))
    step = 8 if tier == 'quick' else 64
    items += [('mutants', tier, lo, min(nb, lo + step)) for lo in range(0, nb, step)]
    items += [('degenerate', tier), ('newer', tier), ('cli', tier)]
    return items


def run_shard(item):
    res = ShardResult()
    kind = item[0]
    if kind == 'programs':
        _, tag, tier, fam, k, n = item
        widths = BOUNDS[tier]['widths_default_layout']
        seen = set()
        for prog in c08.programs(tier, fam, k, n):
            if isinstance(prog, tuple):
                continue
            for j, (src, desc) in enumerate(c08.sources_for(prog, tier, fam)):
                hk = h64(src)
                if hk in seen:
                    continue
                seen.add(hk)
                if desc == 'default':
                    for w in widths:
                        check_format(prog, src, w, res, desc, fam)
                else:
                    w = (2, 0, 8, 1, 3, 4, 5, 6, 7)[j % (3 if tier == 'quick' else 9)]
                    check_format(prog, src, w, res, desc, fam)
            if k == 0 and len(res.samples) < 1:
                res.sample({'family': fam, 'src': L.assemble(prog, {}), 'widths': widths})
    elif kind == 'mutants':
        bases = mutation_bases(item[1])[item[2]:item[3]]
        seen = set()
        for tree in bases:
            prog = L.render(tree)
            if prog is None or not prog.toks or len(prog.toks) > 12:
                continue
            for src, what in mutants(prog):
                if src in seen:
                    continue
                seen.add(src)
                check_no_loss(src, res, what[0])
        if item[2] == 0:
            res.sample({'mutant_of': 'a = b', 'src': b'a = ) b\n'})
    elif kind == 'degenerate':
        for src in DEGENERATE:
            for w in (0, 2, 8):
                check_format(None, src, w, res, 'degenerate', 'degenerate')
            check_no_loss(src, res, 'degenerate')
    elif kind == 'newer':
        for src in NEWER:
            check_no_loss(src, res, 'newer-syntax')
        res.sample({'newer_syntax': NEWER[1]})
    elif kind == 'cli':
        cli_batch(res, item[1])
    return res


def replay(case):
    res = ShardResult()
    src = case['src']
    if 'origin' in case:
        check_no_loss(src, res, case['origin'])
    elif case.get('cli'):
        cli_batch(res, 'thorough')
    else:
        prog = find_program(src, case.get('family', 'stat'))
        check_format(prog, src, case['width'], res, 'replay', case.get('family', 'stat'))
    return [(s, v[0]) for s, v in res.violations.items()]


def find_program(src, fam):
    if fam == 'degenerate':
        return None
    try:
        sig = [t.text for t in reflex.significant(reflex.lex(src))]
    except reflex.Reject:
        return None
    for tier in ('quick', 'thorough'):
        n = c08.NSHARD[tier] if fam in ('stat', 'pairs', 'local') else max(4, c08.NSHARD[tier] // 4)
        for k in range(n):
            for prog in c08.programs(tier, fam, k, n):
                if not isinstance(prog, tuple) and L.expected_ref_tokens(prog) == sig:
                    return prog
    return None
