"""C06 — unchanged code stays unchanged: the default writer echoes the source losslessly.

out = b''.join(Lua.from_lines(src).to_lines()) for every enumerated source; using the reference lexer's
spans: outside quoted string literals out == src byte for byte, inside each quoted literal the written
spelling denotes the same byte string; nothing dropped, nothing duplicated.
"""
from lib import reflex
from lib import core
from lib.core import ShardResult

LEVEL = 'exploration'
RULE = ('(a) every generated dialect program x layout (lib/luagen, same space as C08); (b) every quoted-string body of '
        '<= N atoms (quick 2, thorough 3) over 49 atoms (plain chars, every escape form, raw control/high bytes, quotes) '
        'x both quote kinds; (c) every \\d, \\dd, \\ddd escape for 0-255 followed by {digit, letter, end}, every raw byte '
        '1-255 in string / comment / identifier position; (d) long brackets of level 0-3 over bodies with ], ]], ]=], '
        'newlines; (e) each with and without final newline, LF and CRLF, as one chunk and as per-line chunks; '
        'non-trivial = source with a string literal containing an escape or non-ASCII byte, or with >= 3 tokens')
ASSUMPTIONS = ['reference lexer lib/reflex.py decodes string literals per Lua 5.2 + P8SCII escapes; sources it rejects '
               'demand nothing']
BOUNDS = {'quick': {'string_atoms': 2}, 'thorough': {'string_atoms': 3}}

ATOMS = [
    (b'a', 'char'), (b'1', 'digit'), (b' ', 'space'), (b'z', 'char-z'), (b'x', 'char-x'),
    (b'\\a', 'esc-a'), (b'\\b', 'esc-b'), (b'\\f', 'esc-f'), (b'\\n', 'esc-n'), (b'\\r', 'esc-r'), (b'\\t', 'esc-t'),
    (b'\\v', 'esc-v'), (b'\\\\', 'esc-backslash'), (b'\\"', 'esc-dq'), (b"\\'", 'esc-sq'),
    (b'\\0', 'dec-0'), (b'\\00', 'dec-00'), (b'\\000', 'dec-000'), (b'\\1', 'dec-1'), (b'\\14', 'dec-14'),
    (b'\\15', 'dec-15'), (b'\\255', 'dec-255'), (b'\\9', 'dec-9'), (b'\\65', 'dec-65'), (b'\\010', 'dec-010'),
    (b'\\x41', 'esc-x'), (b'\\x00', 'esc-x00'), (b'\\z ', 'esc-z'), (b'\\\n', 'esc-newline'),
    (b'\\*', 'p8-1'), (b'\\#', 'p8-2'), (b'\\-', 'p8-3'), (b'\\|', 'p8-4'), (b'\\+', 'p8-5'), (b'\\^', 'p8-6'),
    (b'OTHERQ', 'other-quote'), (b'\x01', 'raw-01'), (b'\x07', 'raw-07'), (b'\x0e', 'raw-0e'), (b'\x0f', 'raw-0f'),
    (b'\x7f', 'raw-7f'), (b'\x80', 'raw-80'), (b'\xff', 'raw-ff'), (b'[', 'lbracket'), (b']', 'rbracket'),
    (b'-', 'minus'), (b'\t', 'raw-tab'), (b'\\z\n  ', 'esc-z-newline'), (b'\\z\r\n\t', 'esc-z-crlf'),
    (b'\\\r\n', 'esc-newline-crlf'), (b'\\\r', 'esc-newline-cr'),
    # an escaped backslash followed by the digits of the escapes a writer pads (\\0, \\14, \\15): text, not an escape
    (b'\\\\0', 'esc-backslash-0'), (b'\\\\14', 'esc-backslash-14'), (b'\\\\15', 'esc-backslash-15'), (b'0', 'digit-0'),
]


def lua_mod():
    from pico8.lua import lua
    return lua


def echo(chunks):
    lua = lua_mod()
    obj = lua.Lua.from_lines(chunks, version=core.lua_version(chunks))
    return b''.join(obj.to_lines())


def check_source(src, res, fam, classes=None, chunked=False):
    """Returns a list of (kind, detail) problems for one source (empty = fine)."""
    try:
        ref = reflex.lex(src)
    except reflex.Reject:
        res.count('rejected_by_reference')
        return None
    res.evaluations += 1
    nt = any(t.kind == 'string' and (b'\\' in t.text or any(c >= 0x80 or c < 0x20 for c in t.text)) for t in ref)
    if nt or len(reflex.significant(ref)) >= 3:
        res.nontriv(src)
    if chunked:
        parts = src.split(b'\n')
        chunks = [p + b'\n' for p in parts[:-1]] + ([parts[-1]] if parts[-1] else [])
    else:
        chunks = [src]
    try:
        out = echo(chunks)
    except Exception as e:
        return [('raise-%s' % type(e).__name__, 'echo of %r raised %r' % (src, e))]
    if out == src:
        # rendering the object in another form (the pure-Lua listing of `p8tool listlua --pure-lua`) does not change it:
        # the default writer still gives the source afterwards
        if not chunked and (b'?' in src or b'//' in src or b'if' in src or len(src) % 7 == 0):
            lua = lua_mod()
            try:
                obj = lua.Lua.from_lines(chunks, version=core.lua_version(chunks))
                try:
                    b''.join(obj.to_lines(writer_cls=lua.PureLuaWriter))
                except Exception:
                    pass
                again = b''.join(obj.to_lines())
            except Exception as e:
                return [('raise-%s' % type(e).__name__, 'echo of %r after a pure-Lua listing raised %r' % (src, e))]
            if again != src:
                return [('changed-by-pure-lua-listing', 'after to_lines(writer_cls=PureLuaWriter) the same Lua object writes %r for the source %r' % (again, src))]
        res.outcome(('identical', fam))
        return []
    try:
        ot = reflex.lex(out)
    except reflex.Reject as e:
        return [('output-unlexable', 'echo of %r gives %r which does not lex: %s' % (src, out, e))]
    if len(ot) != len(ref):
        return [('token-count', 'echo of %r gives %r: %d tokens instead of %d' % (src, out, len(ot), len(ref)))]
    for a, b in zip(ref, ot):
        if a.kind != b.kind:
            return [('kind', 'echo of %r gives %r: %s became %s' % (src, out, a.kind, b.kind))]
        if a.kind == 'string' and a.level is None:
            if b.level is not None or a.value != b.value:
                return [('string-value', 'echo re-spells %r as %r: denotes %r instead of %r' % (a.text, b.text, b.value, a.value))]
        elif a.text != b.text:
            return [('bytes-%s' % a.kind, 'echo of %r gives %r: %r became %r' % (src, out, a.text, b.text))]
    res.outcome(('respelled', fam))
    return []


def report(src, probs, res, fam, sig_detail):
    for kind, detail in probs:
        res.violation('C06|%s|%s' % (kind, sig_detail), detail, {'src': src, 'fam': fam, 'detail': sig_detail})


def atom_bytes(a, q):
    if a == b'OTHERQ':
        return b"'" if q == b'"' else b'"'
    if a == b'\\"' and q == b"'":
        return a
    return a


def string_source(atoms, q):
    return b'x=' + q + b''.join(atom_bytes(a, q) for a, _ in atoms) + q


def check_string(atoms, q, res):
    src = string_source(atoms, q)
    probs = check_source(src, res, 'string')
    if not probs and b'\n' in src:
        # the same literal arriving split at line ends (the .p8 path)
        probs = check_source(src + b'\ny=1\n', res, 'string', chunked=True)
        if probs:
            report(src + b'\ny=1\n', probs, res, 'string', 'chunked:' + '+'.join(c for _, c in atoms))
            return
    if probs:
        # minimise to the failing atom or adjacent pair for a stable, specific signature
        detail = None
        for a in atoms:
            p = check_source(string_source([a], q), ShardResult(), 'string')
            if p:
                detail = a[1]
                break
        if detail is None:
            for i in range(len(atoms) - 1):
                p = check_source(string_source(atoms[i:i + 2], q), ShardResult(), 'string')
                if p:
                    detail = atoms[i][1] + '+' + atoms[i + 1][1]
                    break
        if detail is None:
            detail = '+'.join(c for _, c in atoms)
        report(src, probs, res, 'string', detail)


def nth_tuple(idx, k):
    """idx-th tuple of atom indices in length-then-lexicographic order (idx 0 = empty)."""
    ln = 0
    n = 1
    while idx >= n:
        idx -= n
        ln += 1
        n *= k
    out = []
    for _ in range(ln):
        out.append(idx % k)
        idx //= k
    return list(reversed(out))


def count_tuples(maxlen, k):
    return sum(k ** i for i in range(maxlen + 1))


def decimal_sources():
    out = []
    for v in range(256):
        for spelling in sorted({b'%d' % v, b'%02d' % v, b'%03d' % v}):
            for tail, tc in ((b'', 'end'), (b'7', 'digit'), (b'q', 'letter')):
                out.append((b'x="a\\' + spelling + tail + b'"', 'dec%d-then-%s' % (len(spelling), tc)))
    return out


def hex_sources():
    """Every \\xhh escape in every letter-case spelling, followed by nothing / a hex digit / a letter."""
    out = []
    for v in range(256):
        lo = b'%02x' % v
        sp = sorted({lo, lo.upper(), lo[:1].upper() + lo[1:], lo[:1] + lo[1:].upper()})
        for spelling in sp:
            for tail, tc in ((b'', 'end'), (b'f', 'hexdigit'), (b'F', 'hexdigit'), (b'7', 'digit'), (b'q', 'letter')):
                for q in (b'"', b"'"):
                    out.append((b'x=' + q + b'a\\x' + spelling + tail + q, 'hex-%s-then-%s' % (
                        'lower' if spelling == lo and not lo.isdigit() else 'digits' if lo.isdigit() else 'upper-or-mixed', tc)))
    return out


def rawbyte_sources():
    out = []
    for b in range(1, 256):
        ch = bytes([b])
        if b not in (10, 13, 34, 92):
            out.append((b'x="' + ch + b'" y=1', 'raw-in-dq'))
        if b not in (10, 13, 39, 92):
            out.append((b"x='" + ch + b"'", 'raw-in-sq'))
        if b not in (10, 13):
            out.append((b'x=1 --' + ch + b'.\ny=2', 'raw-in-comment'))
            out.append((b'x=1 //' + ch + b'.\ny=2', 'raw-in-comment'))
        if b != 93:
            out.append((b'x=[[' + ch + b']]', 'raw-in-long'))
        if b >= 0x80:
            out.append((ch + b'a=' + ch + b' + a' + ch, 'raw-in-ident'))
    return out


def long_sources():
    out = []
    bodies = [b'', b'a', b']', b'a]b', b']]', b'a]]b', b']=]', b'a]=]b', b']==]', b'\n', b'\na', b'a\nb', b'a\n\n',
              b'\r\na', b'"', b"'", b'\\', b'\\n', b'--', b'[[', b'[=[', b'a\n]', b'=', b']=']
    for lvl in range(4):
        eq = b'=' * lvl
        op, cl = b'[' + eq + b'[', b']' + eq + b']'
        for body in bodies:
            if cl in body or (body + cl[:1]).endswith(cl[:-1] + b']') and cl in (body + cl):
                if (body + cl).find(cl) != len(body):
                    continue
            for pre, post in ((b'x=', b''), (b'x=', b'\ny=2\n'), (b'f', b''), (b'x={', b'}'), (b'x=', b' --c')):
                out.append((pre + op + body + cl + post, 'long-level%d' % lvl))
            for pre, post in ((b'', b''), (b'x=1 ', b'\n'), (b'x=1\n', b'y=2')):
                out.append((pre + b'--' + op + body + cl + post, 'longcomment-level%d' % lvl))
    return out


def layout_variants(src):
    """(e): final newline / CRLF / chunking variants of one source."""
    out = [(src, False)]
    if not src.endswith(b'\n'):
        out.append((src + b'\n', False))
    if b'\n' in src:
        out.append((src, True))
        if b'\r' not in src:
            out.append((src.replace(b'\n', b'\r\n'), False))
            out.append((src.replace(b'\n', b'\r\n'), True))
    return out


def shards(tier, seed):
    k = len(ATOMS)
    total = count_tuples(BOUNDS[tier]['string_atoms'], k)
    n = 48 if tier == 'quick' else 256
    step = (total + n - 1) // n
    items = [('strings', lo, min(total, lo + step)) for lo in range(0, total, step)]
    items += [('decimal',), ('hexesc',), ('rawbytes',), ('long',), ('misc',), ('cli',), ('twostrings',)]
    try:
        from props import c08
        items += c08.program_shards(tier, seed, tag='c06')
    except ImportError:
        pass
    return items


MISC = [b'', b'\n', b'x=1', b'x=1\n', b'x=1\r\n', b'  x = 1  ', b'\t\n\n', b'-- only a comment', b'--[[ml\ncomment]]',
        b'x=1 -- c\n-- d\n//e\ny=2', b'a,b=1,2;c=3;;', b'?x,y\n', b'if (a) b=1\n', b'if (a) b=1 else c=2\nd=3',
        b'::l:: goto l', b'x=0x1f.8+0b101-.5*1e5/1e-5', b'x = a\\b ^^ c <<> d >>< e >>> f != g', b'x..=1 y%=2',
        b'f"s" g[[l]] h{1}', b'a.b:c(...)', b'x=@y+%z+$w', b'\x80\x81=\x82']


# string literals for the ordered-pair families (same value under both quote kinds, values holding quote characters,
# \\z, numeric escapes, long brackets, control and high bytes)
STRING_LITS = [b'"a"', b"'a'", b'" b"', b"' b'", b'"a\\z  "', b"'\\z'", b'"\\z\n  c"', b'"\\x41"', b'"\\0"', b'"\\0001"',
               b'"don\'t"', b"'don\\'t'", b'"\\""', b"'\"'", b'[[a]]', b'[[ b]]', b'[=[]]]=]', b'"\\\n d"', b'""', b"''",
               b'"\x0e1"', b'"\xff"', b"'say \"hi\"'", b'"say \\"hi\\""', b'[[say "hi"]]', b'[[don\'t]]', b"'\\''", b'"\'"',
               b'"\\\\"', b"'\\\\'", b'"\\n"', b"'\\n'", b'[[\n]]', b'[[\n\n]]']


def run_shard(item):
    res = ShardResult()
    kind = item[0]
    if kind == 'strings':
        k = len(ATOMS)
        for idx in range(item[1], item[2]):
            atoms = [ATOMS[i] for i in nth_tuple(idx, k)]
            for q in (b'"', b"'"):
                check_string(atoms, q, res)
        res.sample({'src': string_source([ATOMS[i] for i in nth_tuple(item[2] - 1, k)], b'"')}, limit=1)
    elif kind == 'decimal':
        for src, cls in decimal_sources():
            probs = check_source(src, res, 'decimal')
            if probs:
                report(src, probs, res, 'decimal', cls)
        res.sample({'src': decimal_sources()[30][0]})
    elif kind == 'hexesc':
        for src, cls in hex_sources():
            probs = check_source(src, res, 'hexesc')
            if probs:
                report(src, probs, res, 'hexesc', cls)
        res.sample({'src': hex_sources()[2000][0]})
    elif kind == 'rawbytes':
        for src, cls in rawbyte_sources():
            for s2, ch in layout_variants(src):
                probs = check_source(s2, res, 'rawbytes', chunked=ch)
                if probs:
                    report(s2, probs, res, 'rawbytes', cls + ('-chunked' if ch else ''))
        res.sample({'src': rawbyte_sources()[700][0]})
    elif kind == 'long':
        for src, cls in long_sources():
            for s2, ch in layout_variants(src):
                probs = check_source(s2, res, 'long', chunked=ch)
                if probs:
                    report(s2, probs, res, 'long', cls + ('-chunked' if ch else ''))
        res.sample({'src': long_sources()[17][0]})
    elif kind == 'misc':
        for src in MISC:
            for s2, ch in layout_variants(src):
                probs = check_source(s2, res, 'misc', chunked=ch)
                if probs:
                    report(s2, probs, res, 'misc', 'misc%d' % MISC.index(src))
    elif kind == 'twostrings':
        lits = STRING_LITS
        for a in lits:
            for b in lits:
                for sep in (b' y=', b'\ny=', b',') :
                    src = b'x=' + a + sep + b + (b'' if sep != b',' else b'') + b'\n'
                    if sep == b',':
                        src = b'x,y=' + a + b',' + b + b'\n'
                    for chunked in (False, True):
                        probs = check_source(src, res, 'twostrings', chunked=chunked)
                        if probs:
                            report(src, probs, res, 'twostrings', 'pair')
        res.sample({'src': b'x="a\\z  " y=" b"\n'})
    elif kind == 'cli':
        cli_batch(res)
        res.sample({'cli': 'p8tool writep8 in.p8 ; p8tool build out.p8 --lua in.p8 ; build out.p8.png --lua in.lua'})
    elif kind == 'programs':
        from props import c08
        for src, meta in c08.programs_for_shard(item):
            if item[2] == 'thorough' and meta['desc'] == 'dev1' and len(meta['prog'].toks) > 8:
                continue        # the echo writer ignores the tree: one-gap layouts of long programs add nothing new
            for s2, ch in ((src, False), (src, True)) if b'\n' in src else ((src, False),):
                probs = check_source(s2, res, 'programs', chunked=ch)
                if probs and probs[0][0].startswith('raise-') and c08.has_qprint(meta['prog'].skeleton):
                    res.violation('C06|qprint|load-raises', 'the valid program %r (? print inside a block) cannot be loaded: %s' % (
                        s2, probs[0][1]), {'src': s2, 'fam': 'programs', 'detail': 'qprint'})
                elif probs:
                    report(s2, probs, res, 'programs', 'program')
    return res


def compare_code(src, got, res, what):
    """The code a command wrote (read back) must equal the source up to string re-spelling and a final newline."""
    case = {'src': src, 'fam': 'cli', 'detail': what}
    try:
        a = reflex.lex(src)
    except reflex.Reject:
        return
    res.evaluations += 1
    res.nontriv((what, src))
    if got.rstrip(b'\n') == src.rstrip(b'\n'):
        res.outcome((what, 'identical'))
        return
    try:
        b = reflex.lex(got)
    except reflex.Reject:
        res.violation('C06|cli|%s|unlexable' % what, '%s wrote %r for %r' % (what, got, src), case)
        return
    ka = [(t.kind, t.value if t.kind == 'string' and t.level is None else t.text) for t in a if t.kind not in ('newline',)]
    kb = [(t.kind, t.value if t.kind == 'string' and t.level is None else t.text) for t in b if t.kind not in ('newline',)]
    while ka and ka[-1][0] == 'space':
        ka.pop()
    while kb and kb[-1][0] == 'space':
        kb.pop()
    if ka != kb:
        res.violation('C06|cli|%s|differs' % what, '%s wrote %r for the code %r' % (what, got, src), case)
    else:
        res.outcome((what, 'respelled'))


def cli_batch(res):
    import os
    import shutil
    import tempfile
    from pico8 import tool
    from pico8.game import file as p8file
    from lib import carts
    from lib import refcodec as rc
    d = tempfile.mkdtemp(prefix='c06_')
    try:
        sources = [m for m in MISC if m.strip()] + [s_ for s_, _ in long_sources()[::9]] + [s_ for s_, _ in decimal_sources()[::97]]
        for n, src in enumerate(sources):
            try:
                reflex.lex(src)
                g = carts.make_game({}, version=33, code_lines=[src])
            except Exception:
                continue
            inp = os.path.join(d, 'in%d.p8' % n)
            # the input cart is written by hand so that the command under test is the only picotool writer involved
            if any(c >= 0x80 or c < 0x20 and c not in (9, 10, 13) for c in src):
                p8file.to_file(g, inp)
            else:
                open(inp, 'wb').write(rc.P8_HEADER + b'version 33\n__lua__\n' + src + (b'' if src.endswith(b'\n') else b'\n') +
                                      b'__gfx__\n')
            for what, args, result in (
                    ('writep8', ['writep8', inp], os.path.join(d, 'in%d_fmt.p8' % n)),
                    ('build-p8', ['build', os.path.join(d, 'o%d.p8' % n), '--lua', inp], os.path.join(d, 'o%d.p8' % n)),
                    ('build-png', ['build', os.path.join(d, 'o%d.p8.png' % n), '--lua', inp], os.path.join(d, 'o%d.p8.png' % n))):
                try:
                    rc_ = tool.main(args)
                    got = b''.join(p8file.from_file(result).lua.to_lines())
                except Exception as e:
                    res.violation('C06|cli|%s|raise|%s' % (what, type(e).__name__), 'p8tool %s on code %r raised %r' % (what, src, e),
                                  {'src': src, 'fam': 'cli', 'detail': what})
                    continue
                if what == 'build-png':
                    src_cmp = src.replace(b'\r', b' ')       # the .p8.png reader maps CR to space (C04)
                else:
                    src_cmp = src
                compare_code(src_cmp, got, res, what)
            # `build --lua file.lua` copies the file's bytes as they are: every way a source can end
            if n % 3 == 0:
                stem = src.rstrip(b'\r\n')
                for k, tail in enumerate((b'', b'\n', b'\r', b'\r\n', b'\n\r', b'\r\r', b'\n\n', b' ', b'\t\r')):
                    code = stem + tail
                    try:
                        reflex.lex(code)
                    except reflex.Reject:
                        continue
                    luaf = os.path.join(d, 'l%d_%d.lua' % (n, k))
                    open(luaf, 'wb').write(code)
                    outp = os.path.join(d, 'lo%d_%d.p8' % (n, k))
                    try:
                        rc_ = tool.main(['build', outp, '--lua', luaf])
                        got = b''.join(p8file.from_file(outp).lua.to_lines())
                        parsed = rc.parse_p8(open(outp, 'rb').read())
                    except Exception as e:
                        res.violation('C06|cli|build-from-lua|raise|%s' % type(e).__name__,
                                      'p8tool build --lua on a .lua file holding %r raised %r' % (code, e),
                                      {'src': code, 'fam': 'cli', 'detail': 'build-from-lua'})
                        continue
                    if 'gfx' not in parsed.sections:
                        res.violation('C06|cli|build-from-lua|section-swallowed',
                                      'p8tool build --lua on a .lua file holding %r: the written .p8 has no __gfx__ section line '
                                      '(the code runs into it)' % (code,), {'src': code, 'fam': 'cli', 'detail': 'build-from-lua'})
                        continue
                    compare_code(code, got, res, 'build-from-lua')
    finally:
        shutil.rmtree(d, ignore_errors=True)


def replay(case):
    res = ShardResult()
    if case.get('fam') == 'cli':
        cli_batch(res)
        return [(s, v[0]) for s, v in res.violations.items()]
    src = case['src']
    fam = case.get('fam', 'misc')
    if case.get('detail') == 'qprint':
        r = ShardResult()
        probs = check_source(src, r, fam)
        return [('C06|qprint|load-raises', probs[0][1])] if probs and probs[0][0].startswith('raise-') else []
    got = []
    for ch in (False, True):
        r = ShardResult()
        probs = check_source(src, r, fam, chunked=ch)
        for kind, detail in probs or []:
            got.append(('C06|%s|' % kind, detail))
    # signatures carry a family-specific detail; match on the kind prefix
    return [(sig_prefix_match(case, p), d) for p, d in got]


def sig_prefix_match(case, prefix):
    return prefix + case.get('detail', '')
