"""C13 — build takes each cart section from exactly the source the arguments name.

Every assignment of {unspecified, from a .p8 cart, from a .p8.png cart, --empty-X} to the six sections (lua
also from a .lua file) x {OUT absent .p8, OUT absent .p8.png, OUT existing .p8 with label, OUT existing
.p8.png with label} through pico8.tool.main(['build', ...]) on real files.  Sources are written by the
independent reference writers and hold distinct contents in every section; OUT is read back with the
independent readers.  Error combinations must fail and leave OUT untouched.
"""
import itertools
import os
import shutil
import tempfile

from lib import carts
from lib import refcodec as rc
from lib.core import ShardResult, REPO

LEVEL = 'exploration'
RULE = ('all assignments of 4 choices to 6 sections with at most K specified sections (quick K=2: 154 assignments plus the 57 '
        'assignments within one change of all-.p8 / all-.p8.png / all-empty, thorough K=6: all 4096) x 4 OUT states, plus lua from a .lua file x OUT states x other sections, plus every error '
        'combination per section (both --X and --empty-X, missing file, wrong extension) x OUT states; non-trivial = at '
        'least one section specified; distinct = distinct (assignment, OUT state)')
ASSUMPTIONS = ['the "empty default" of a section is what the PICO-8-written tests/testdata/empty.p8 holds',
               'sources hold no music byte with bit 7 of the 4th channel set (not representable in .p8)',
               'code is compared modulo trailing newlines (the .p8.png reader appends one)']
BOUNDS = {'quick': {'max_specified': 2}, 'thorough': {'max_specified': 6}}

SECTIONS = ['lua', 'gfx', 'gff', 'map', 'sfx', 'music']
CHOICES = ['none', 'p8', 'png', 'empty']
OUT_STATES = ['absent-p8', 'absent-png', 'existing-p8', 'existing-png']
# further states of an existing OUT, used by the 'outstates' family: a .p8 whose label section is all colour 0 (a label is a
# label whatever it shows), a .p8 without a label section
MORE_OUT_STATES = ['existing-p8-blacklabel', 'existing-p8-nolabel']


def fills(variant):
    f = {}
    for idx, (name, (lo, hi)) in enumerate(rc.REGION_ORDER):
        f[name] = bytes(((i * (3 + variant) + idx * 31 + variant * 57 + (i >> 7)) & 0xff) for i in range(hi - lo))
    f['music'] = bytes((b & 0x7f) if i % 4 == 3 else b for i, b in enumerate(f['music']))
    return f


CODE = {'p8': b'-- from p8\nsrc=1\n', 'png': b'-- from png\nsrc=2\n', 'prev-p8': b'-- prev p8\nsrc=3\n',
        'prev-png': b'-- prev png\nsrc=4\n', 'luafile': b'-- from lua file\nsrc=5\n', 'sparse': b'-- sparse\nsrc=6\n'}


def ref_p8(fl, code, label=None, version=33):
    out = [rc.P8_HEADER, b'version %d\n' % version, b'__lua__\n', code if code.endswith(b'\n') or not code else code + b'\n']
    out.append(b'__gfx__\n' + b''.join(r.encode() + b'\n' for r in rc.gfx_rows(fl['gfx'])))
    if label is not None:
        out.append(b'__label__\n' + b''.join(r.encode() + b'\n' for r in rc.gfx_rows(label)))
    out.append(b'__gff__\n' + b''.join(r.encode() + b'\n' for r in rc.hex_rows(fl['gff'], 128)))
    out.append(b'__map__\n' + b''.join(r.encode() + b'\n' for r in rc.hex_rows(fl['map'], 128)))
    out.append(b'__sfx__\n' + b''.join(r.encode() + b'\n' for r in rc.sfx_rows(fl['sfx'])))
    out.append(b'__music__\n' + b''.join(r.encode() + b'\n' for r in rc.music_rows(fl['music'])))
    return b''.join(out)


def label_rows():
    from props.c16 import carrier_rows
    return [bytes(r) for r in carrier_rows(1)]


def ref_png(fl, code, rows, version=33):
    mem = bytearray(0x8001)
    for name, (lo, hi) in rc.REGION_ORDER:
        mem[lo:hi] = fl[name]
    mem[0x4300:0x4300 + len(code)] = code
    mem[0x8000] = version
    return rc.png_encode_rgba(160, 205, rc.stego_pack(bytes(mem), 160, 205, rows))


_EMPTY = []


def empty_regions():
    if not _EMPTY:
        p = rc.parse_p8(open(os.path.join(REPO, 'tests', 'testdata', 'empty.p8'), 'rb').read())
        _EMPTY.append(rc.p8_regions(p))
    return _EMPTY[0]


class Env(object):
    # file-name shapes: plain names, and valid names with further dots / blanks / upper case in the base name
    NAMES = {'plain': {'src1': 'src1', 'src2': 'src2', 'code': 'code', 'out': 'out', 'sa': 'sparse_a', 'sb': 'sparse_b'},
             'dotted': {'src1': 'sprites.v2', 'src2': 'game.1.0', 'code': 'main.min', 'out': 'my.cart.v3', 'sa': 'a.b', 'sb': '.hidden.b'},
             'odd': {'src1': 'My Cart (1)', 'src2': 'SRC-2_final', 'code': 'code file', 'out': 'out put', 'sa': 'sp a', 'sb': 'SPB'}}

    def __init__(self, names='plain'):
        self.names = names
        nm = self.NAMES[names]
        self.outbase = nm['out']
        self.d = tempfile.mkdtemp(prefix='c13_')
        self.f = {'p8': fills(1), 'png': fills(2), 'prev-p8': fills(3), 'prev-png': fills(4)}
        self.label_p8 = carts.rot_region(0x2000, 77)
        self.rows = label_rows()
        self.src_p8 = os.path.join(self.d, nm['src1'] + '.p8')
        self.src_png = os.path.join(self.d, nm['src2'] + '.p8.png')
        self.src_lua = os.path.join(self.d, nm['code'] + '.lua')
        open(self.src_p8, 'wb').write(ref_p8(self.f['p8'], CODE['p8']))
        open(self.src_png, 'wb').write(ref_png(self.f['png'], CODE['png'], [bytes(640)] * 205))
        open(self.src_lua, 'wb').write(CODE['luafile'])
        # .p8 sources as PICO-8 saves carts whose other sections were never edited: those sections are left out
        self.src_sparse_a = os.path.join(self.d, nm['sa'] + '.p8')     # __lua__ and __gfx__ only
        self.src_sparse_b = os.path.join(self.d, nm['sb'] + '.p8')     # __lua__, __sfx__, __music__ only
        fa = fills(6)
        open(self.src_sparse_a, 'wb').write(
            rc.P8_HEADER + b'version 33\n__lua__\n' + CODE['sparse'] + b'__gfx__\n' +
            b''.join(r.encode() + b'\n' for r in rc.gfx_rows(fa['gfx'])))
        open(self.src_sparse_b, 'wb').write(
            rc.P8_HEADER + b'version 33\n__lua__\n' + CODE['sparse'] + b'__sfx__\n' +
            b''.join(r.encode() + b'\n' for r in rc.sfx_rows(fa['sfx'])) + b'__music__\n' +
            b''.join(r.encode() + b'\n' for r in rc.music_rows(fa['music'])))
        open(os.path.join(self.d, 'notacart.txt'), 'wb').write(b'hello')
        self.prev_p8 = ref_p8(self.f['prev-p8'], CODE['prev-p8'], label=self.label_p8)
        self.prev_p8_black = ref_p8(self.f['prev-p8'], CODE['prev-p8'], label=bytes(0x2000))
        self.prev_p8_nolabel = ref_p8(self.f['prev-p8'], CODE['prev-p8'])
        self.prev_png = ref_png(self.f['prev-png'], CODE['prev-png'], self.rows)

    def close(self):
        shutil.rmtree(self.d, ignore_errors=True)

    def prepare_out(self, state):
        ext = '.p8' if ('-p8' in state) else '.p8.png'
        out = os.path.join(self.d, self.outbase + ext)
        for e in ('.p8', '.p8.png'):
            p = os.path.join(self.d, self.outbase + e)
            if os.path.exists(p):
                os.unlink(p)
        before = None
        if state == 'existing-p8':
            before = self.prev_p8
        elif state == 'existing-p8-blacklabel':
            before = self.prev_p8_black
        elif state == 'existing-p8-nolabel':
            before = self.prev_p8_nolabel
        elif state == 'existing-png':
            before = self.prev_png
        if before is not None:
            open(out, 'wb').write(before)
        return out, before


def read_out(path):
    """Independent read of OUT: regions, code, label info."""
    data = open(path, 'rb').read()
    if path.endswith('.p8'):
        p = rc.parse_p8(data)
        regs = rc.p8_regions(p)
        code = b''.join(l + b'\n' for l in p.sections.get('lua', []))
        return regs, code, ('p8', regs.get('label'))
    w, h, planes, rows = rc.png_decode(data)
    mem = rc.stego_unpack(w, h, planes, rows)
    m = rc.split_memory(mem)
    text, mode = rc.code_area_decode(m['code_area'])
    return m, text, ('png', rows)


def run_build(env, assign, state, res, lua_file=False, relative=None):
    """relative: None = absolute paths; 'cwd' = run from the scratch directory and name OUT and the sources by bare /
    './'-prefixed file names; 'parent' = run from its parent and name them as dir/file."""
    from pico8 import tool
    res.evaluations += 1
    out, before = env.prepare_out(state)
    cwd0 = os.getcwd()
    try:
        return _run_build(env, assign, state, res, out, before, relative, tool)
    finally:
        os.chdir(cwd0)


def _run_build(env, assign, state, res, out, before, relative, tool):
    def spell(pth):
        if relative == 'cwd':
            return ('./' if len(pth) % 2 else '') + os.path.basename(pth)
        if relative == 'parent':
            return os.path.join(os.path.basename(env.d), 'sub', '..', os.path.basename(pth)) if len(pth) % 2 else \
                os.path.join(os.path.basename(env.d), os.path.basename(pth))
        return pth
    if relative == 'cwd':
        os.chdir(env.d)
    elif relative == 'parent':
        os.makedirs(os.path.join(env.d, 'sub'), exist_ok=True)
        os.chdir(os.path.dirname(env.d))
    args = ['build', spell(out)]
    for sec, ch in zip(SECTIONS, assign):
        if ch == 'p8':
            args += ['--' + sec, spell(env.src_p8)]
        elif ch == 'png':
            args += ['--' + sec, spell(env.src_png)]
        elif ch == 'empty':
            args += ['--empty-' + sec]
        elif ch == 'luafile':
            args += ['--lua', spell(env.src_lua)]
        elif ch == 'sparse':
            args += ['--' + sec, spell(env.src_sparse_b if sec == 'gfx' else env.src_sparse_a)]
    case = {'assign': list(assign), 'out': state}
    if relative:
        case['relative'] = relative
    if env.names != 'plain':
        case['names'] = env.names
    if any(c != 'none' for c in assign):
        res.nontriv((tuple(assign), state))
    from pico8 import util
    import zlib
    if zlib.crc32(repr((assign, state, relative)).encode()) % 5 == 0:
        args = ['--debug'] + args       # every fifth build runs under --debug (logging may not change the result)
        case['debug'] = True
    try:
        rcode = tool.main(args)
    except BaseException as e:
        res.violation('C13|build-raise|%s|out=%s' % (type(e).__name__, state), 'build %r raised %r' % (args[2:], e), case)
        return
    finally:
        util.set_verbosity(util.VERBOSITY_QUIET)
    if rcode != 0:
        res.violation('C13|build-failed|out=%s' % state, 'build %r returned %r' % (args[2:], rcode), case)
        return
    try:
        regs, code, lab = read_out(out)
    except Exception as e:
        res.violation('C13|out-unreadable|out=%s' % state, 'independent reader rejects OUT after build %r: %r' % (args[2:], e), case)
        return
    prev = {'existing-p8': 'prev-p8', 'existing-png': 'prev-png', 'existing-p8-blacklabel': 'prev-p8',
            'existing-p8-nolabel': 'prev-p8'}.get(state)
    for sec, ch in zip(SECTIONS, assign):
        if sec == 'lua':
            if ch in ('p8', 'png', 'luafile', 'sparse'):
                want = CODE[ch]
            elif ch == 'empty' or prev is None:
                want = b''
            else:
                want = CODE[prev]
            if code.rstrip(b'\n') != want.rstrip(b'\n'):
                res.violation('C13|section|lua|choice=%s|out=%s' % (ch, state),
                              'build %r: OUT code is %r, expected %r' % (args[2:], code[:60], want[:60]), case)
            continue
        if ch in ('p8', 'png'):
            want = env.f[ch][sec]
        elif ch == 'sparse' or ch == 'empty' or prev is None:
            want = empty_regions()[sec]
        else:
            want = env.f[prev][sec]
        got = regs[sec]
        if got != want:
            srcs = {('p8', sec): 'p8-source', ('png', sec): 'png-source'}
            which = next((n for n in ('p8', 'png', 'prev-p8', 'prev-png') if env.f[n][sec] == got), None)
            if which is None and got == empty_regions()[sec]:
                which = 'empty-default'
            res.violation('C13|section|%s|choice=%s|out=%s' % (sec, ch, state),
                          'build %r: OUT %s section holds %s, expected %s' % (
                              args[2:], sec, which or 'something else',
                              {'p8': 'the .p8 source', 'png': 'the .p8.png source', 'empty': 'the empty default',
                               'sparse': 'the empty default (the named .p8 source leaves this section out)',
                               'none': ('OUT\'s previous section' if prev else 'the empty default')}[ch]), case)
    # label
    if state == 'existing-png':
        rows = lab[1]
        for y in range(205):
            if bytes(b & 0xfc for b in rows[y]) != bytes(b & 0xfc for b in env.rows[y]):
                res.violation('C13|label|png', 'build %r: the label image of the existing OUT was not kept' % (args[2:],), case)
                break
    if state == 'existing-p8':
        if lab[1] != env.label_p8:
            res.violation('C13|label|p8', 'build %r: the label section of the existing OUT was not kept' % (args[2:],), case)
    if state == 'existing-p8-blacklabel' and lab[1] != bytes(0x2000):
        res.violation('C13|label|p8-black', 'build %r: the existing OUT had a __label__ section (all colour 0); after the build it %s' % (
            args[2:], 'has none' if lab[1] is None else 'holds other pixels'), case)
    if state == 'existing-p8-nolabel' and lab[1] is not None and any(lab[1]):
        res.violation('C13|label|p8-none', 'build %r: the existing OUT had no label; after the build it has one with pixels' % (args[2:],), case)
    res.outcome((state, sum(1 for c in assign if c != 'none')))


def carts_mask(mem):
    from lib import carts
    return carts.mask_music(bytes(mem)) if len(mem) == 256 else bytes(mem)


def run_error(env, sec, kind, state, res):
    from pico8 import tool
    res.evaluations += 1
    out, before = env.prepare_out(state)
    if kind == 'both':
        args = ['build', out, '--' + sec, env.src_p8, '--empty-' + sec]
    elif kind == 'missing':
        args = ['build', out, '--' + sec, os.path.join(env.d, 'nothere.p8')]
    elif kind == 'wrongext':
        args = ['build', out, '--' + sec, os.path.join(env.d, 'notacart.txt')]
    elif kind == 'luaext':
        if sec == 'lua':
            return
        args = ['build', out, '--' + sec, env.src_lua]
    elif kind == 'emptypath':
        # an empty file name (a script passing --gfx "$GFX" with the variable unset) names no usable source
        args = ['build', out, '--' + sec, '']
    elif kind == 'emptypath+empty':
        args = ['build', out, '--' + sec, '', '--empty-' + sec]
    elif kind == 'dirpath':
        args = ['build', out, '--' + sec, env.d]
    elif kind.startswith('unloadable-'):
        # the source exists and has a usable extension, but does not load as a cart; another (good) section source is
        # named before or after it, so that a partial build would show
        what = kind.split('-')[1]
        if what == 'lua':
            bad = os.path.join(env.d, 'wip.p8')
            open(bad, 'wb').write(ref_p8(env.f['p8'], b'function _init()\n if x then\n  y=1\n'))
        elif what == 'header':
            bad = os.path.join(env.d, 'hdr.p8')
            open(bad, 'wb').write(b'pico-8 cartridge\nversion 8\n__lua__\nx=1\n')
        elif what == 'notpng':
            bad = os.path.join(env.d, 'pic.p8.png')
            open(bad, 'wb').write(b'GIF89a' + bytes(64))
        else:
            bad = os.path.join(env.d, 'inc.p8')
            open(bad, 'wb').write(b'pico-8 cartridge // http://www.pico-8.com\nversion 8\n__lua__\n#include gone.lua\n')
        other = [s_ for s_ in SECTIONS if s_ != sec][(len(sec) + len(state)) % 5]
        args = ['build', out, '--' + sec, bad]
        if kind.endswith('-first'):
            args += ['--' + other, env.src_p8]
        else:
            args[2:2] = ['--' + other, env.src_p8]
    elif kind.startswith('out-odd-header-'):
        # OUT exists and IS a cart, but its text is not byte-for-byte what picotool writes (CR LF line ends, a byte order
        # mark, a blank after the header line): the build either refuses and leaves it alone, or keeps what it holds -
        # it never quietly starts from an empty cart
        if state != 'existing-p8':
            return
        how = kind.split('-')[3]
        odd = {'crlf': before.replace(b'\n', b'\r\n'), 'bom': b'\xef\xbb\xbf' + before,
               'blank': before.replace(b'\n', b' \n', 1), 'upper': before.replace(b'pico-8 cartridge', b'PICO-8 cartridge', 1)}[how]
        before = odd
        open(out, 'wb').write(before)
        args = ['build', out, '--empty-' + sec] if sec != 'lua' else ['build', out, '--lua', env.src_lua]
    elif kind.startswith('oversize-'):
        # every argument is fine and loads, but the program does not fit a .p8.png cart's code area (the failure comes
        # from the last step, the write); only for .p8.png OUTs - a .p8 has no such limit
        if '-p8' in state or sec != 'lua':
            return
        big = os.path.join(env.d, 'big.lua')
        if kind == 'oversize-incompressible':
            v, body = 7, bytearray()
            while len(body) < 42000:
                v = (v * 1103515245 + 12345) & 0x7fffffff
                body += b'D%d="%s"\n' % (len(body), bytes(65 + ((v >> (3 * i)) % 26) for i in range(9)) * 3)
            open(big, 'wb').write(bytes(body))
        else:
            open(big, 'wb').write(b''.join(b'x%d=%d*%d+%d\n' % (i, i * 7, i + 3, i * i) for i in range(3200)))
        args = ['build', out, '--lua', big, '--gfx', env.src_p8]
    elif kind == 'outext':
        # OUT itself has an unusable name: nothing may be created
        out = os.path.join(env.d, 'out_' + sec + '.txt')
        before = None
        args = ['build', out, '--' + sec, env.src_p8]
    case = {'error': kind, 'section': sec, 'out': state}
    res.nontriv((sec, kind, state))
    try:
        rcode = tool.main(args)
        raised = None
    except SystemExit as e:
        rcode = e.code
        raised = e
    except BaseException as e:
        rcode = None
        raised = e
    if rcode == 0 and raised is None and kind.startswith('out-odd-header-'):
        # accepted: then every section that was not named still holds what OUT held
        try:
            regs, code, lab = read_out(out)
            prev = env.f['prev-p8']
            lost = [n for n in ('gfx', 'gff', 'map', 'sfx', 'music') if n != sec and bytes(regs.get(n, b'')) != bytes(prev[n]) and
                    not (n == 'music' and carts_mask(regs.get(n, b'')) == carts_mask(prev[n]))]
        except Exception as e:
            lost = ['unreadable: %r' % (e,)]
        if lost:
            res.violation('C13|odd-out-overwritten|%s|%s' % (kind, sec), 'build %r onto an existing cart whose text has %s reported success but the '
                          'sections %r no longer hold what OUT held' % (args[2:], kind[15:], lost), case)
        else:
            res.outcome(('odd-out-kept', kind))
        return
    if rcode == 0 and raised is None:
        res.violation('C13|error-accepted|%s|%s' % (kind, sec), 'build %r succeeded although the arguments are unusable' % (
            args[2:],), case)
        return
    after = open(out, 'rb').read() if os.path.exists(out) else None
    if after != before:
        res.violation('C13|error-touched-out|%s|%s|out=%s' % (kind, sec, state),
                      'build %r failed but OUT %s' % (args[2:], 'was created' if before is None else 'was modified'), case)
        return
    res.outcome(('error', kind))


def assignments(max_spec):
    """Deviation-bounded around the four uniform assignments: within `max_spec` changes of all-unspecified, and (when
    max_spec < 6) within 1 change of all-from-.p8, all-from-.p8.png and all-empty (so that "every section specified"
    is reached in the quick tier too)."""
    for assign in itertools.product(CHOICES, repeat=6):
        if sum(1 for c in assign if c != 'none') <= max_spec:
            yield assign
        elif max_spec < 6 and any(sum(1 for c in assign if c != u) <= 1 for u in ('p8', 'png', 'empty')):
            yield assign


def shards(tier, seed):
    n = 32 if tier == 'quick' else 128
    items = [('assign', tier, k, n) for k in range(n)]
    items += [('luafile', tier), ('errors', tier), ('resave', tier), ('sparse', tier), ('relpaths', tier),
              ('names', tier, 'dotted'), ('names', tier, 'odd'), ('outstates', tier)]
    return items


def run_shard(item):
    res = ShardResult()
    env = Env(item[2] if item[0] == 'names' else 'plain')
    try:
        if item[0] == 'assign':
            _, tier, k, n = item
            i = 0
            for assign in assignments(BOUNDS[tier]['max_specified']):
                for state in OUT_STATES:
                    if i % n == k:
                        run_build(env, assign, state, res)
                    i += 1
            if k == 0:
                res.sample({'assignment': dict(zip(SECTIONS, ['png', 'none', 'empty', 'none', 'p8', 'none'])),
                            'out': 'existing-png'})
        elif item[0] == 'luafile':
            for state in OUT_STATES:
                for other in itertools.product(['none', 'p8', 'empty'], repeat=2):
                    assign = ['luafile', other[0], 'none', other[1], 'none', 'none']
                    run_build(env, assign, state, res)
        elif item[0] == 'outstates':
            for state in MORE_OUT_STATES:
                for assign in (['none'] * 6, ['p8', 'none', 'png', 'none', 'empty', 'none'], ['luafile', 'png', 'none', 'p8', 'none', 'sparse'],
                               ['png', 'p8', 'png', 'p8', 'png', 'p8'], ['none', 'p8', 'none', 'empty', 'none', 'none'], ['empty'] * 6):
                    run_build(env, assign, state, res)
            res.sample({'outstates': MORE_OUT_STATES})
        elif item[0] == 'names':
            for state in OUT_STATES:
                for assign in (['none'] * 6, ['p8', 'none', 'png', 'none', 'empty', 'none'], ['luafile', 'png', 'none', 'p8', 'none', 'sparse'],
                               ['png', 'p8', 'png', 'p8', 'png', 'p8'], ['none', 'sparse', 'none', 'none', 'none', 'empty']):
                    run_build(env, assign, state, res)
                    run_build(env, assign, state, res, relative='cwd')
            res.sample({'names': item[2], 'files': sorted(os.listdir(env.d))[:6]})
        elif item[0] == 'relpaths':
            for rel in ('cwd', 'parent'):
                for state in OUT_STATES:
                    for assign in (['none'] * 6, ['p8', 'none', 'png', 'none', 'empty', 'none'], ['luafile', 'png', 'none', 'p8', 'none', 'sparse'],
                                   ['png', 'p8', 'png', 'p8', 'png', 'p8'], ['none', 'none', 'none', 'none', 'none', 'empty']):
                        run_build(env, assign, state, res, relative=rel)
            res.sample({'relpaths': 'build out.p8.png --gfx ./src1.p8 run from the directory; build dir/out.p8 --gfx dir/sub/../src1.p8 from its parent'})
        elif item[0] == 'sparse':
            for state in OUT_STATES:
                for si, sec in enumerate(SECTIONS):
                    for ctx in ('none', 'png', 'empty'):
                        assign = [ctx] * 6
                        assign[si] = 'sparse'
                        run_build(env, assign, state, res)
                run_build(env, ['sparse'] * 6, state, res)
            res.sample({'sparse': 'build OUT --map sparse_a.p8 (a .p8 source without a __map__ section)', 'out': 'existing-p8'})
        elif item[0] == 'resave':
            # histories: the same source paths are re-saved with new contents between builds of one process
            for rnd in range(3):
                for state in OUT_STATES:
                    run_build(env, ['p8', 'png', 'p8', 'png', 'p8', 'png'], state, res)
                    run_build(env, ['none', 'p8', 'none', 'none', 'png', 'none'], state, res)
                env.f['p8'] = fills(5 + rnd)
                env.f['png'] = fills(8 + rnd)
                CODE['p8'] = b'-- from p8 round %d\nsrc=1\n' % rnd
                CODE['png'] = b'-- from png round %d\nsrc=2\n' % rnd
                open(env.src_p8, 'wb').write(ref_p8(env.f['p8'], CODE['p8']))
                open(env.src_png, 'wb').write(ref_png(env.f['png'], CODE['png'], [bytes(640)] * 205))
            res.sample({'history': 'build; re-save src1.p8/src2.p8.png with new contents; build again (x3)'})
        elif item[0] == 'errors':
            for state in OUT_STATES:
                for sec in SECTIONS:
                    for kind in ('both', 'missing', 'wrongext', 'luaext', 'outext', 'emptypath', 'emptypath+empty', 'dirpath',
                                 'unloadable-lua-first', 'unloadable-lua-last', 'unloadable-header-first', 'unloadable-notpng-last',
                                 'unloadable-include-first', 'oversize-incompressible', 'oversize-compressible',
                                 'out-odd-header-crlf', 'out-odd-header-bom', 'out-odd-header-blank', 'out-odd-header-upper'):
                        run_error(env, sec, kind, state, res)
            res.sample({'error': 'both --gfx and --empty-gfx', 'out': 'existing-p8'})
    finally:
        env.close()
    return res


def replay(case):
    res = ShardResult()
    env = Env(case.get('names', 'plain'))
    try:
        if 'assign' in case:
            run_build(env, case['assign'], case['out'], res, relative=case.get('relative'))
        else:
            run_error(env, case['section'], case['error'], case['out'], res)
    finally:
        env.close()
    return [(s, v[0]) for s, v in res.violations.items()]
