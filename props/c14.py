"""C14 — build embeds each require()d package once and leaves all code intact.

(graphs) every set of require edges on {main, p1, p2, p3} (quick: {main, p1, p2}); (bodies) package bodies
built from every statement kind of the dialect grammar with game-loop functions at the start / middle / end /
nowhere / everywhere x final newline yes/no x use_game_loop; (paths) nested directories and load-path
settings; (errors) missing files and malformed require() arguments.  All through
`p8tool build OUT.p8 --lua main.lua`; OUT's code is re-lexed with the reference lexer and matched against the
token streams the files denote.
"""
import itertools
import os
import shutil
import tempfile

from lib import luagen as L
from lib import refcodec as rc
from lib import reflex
from lib.core import ShardResult

LEVEL = 'exploration'
RULE = ('graphs: all 2^E edge sets of require edges (quick E=6 on main,p1,p2; thorough E=12 on main,p1,p2,p3) incl. shared '
        'packages and cycles; bodies: 15 statement kinds as filler x 6 game-loop placements x final newline {yes,no} x '
        'use_game_loop {false,true}; paths: 6 directory / load-path layouts; errors: 7 malformed or missing require()s; '
        'non-trivial = build with at least one package; distinct = distinct file set')
ASSUMPTIONS = ['token streams compared with the reference lexer (strings by value)',
               'the order of package blocks and the text of the loader are not fixed by the statement: only the presence '
               'of `function require` and a `package` table assignment is required outside the package blocks',
               'requirers never disagree on use_game_loop for one package']
BOUNDS = {'quick': {'graph_packages': 2}, 'thorough': {'graph_packages': 3}}

GAME_LOOP = [b'_init', b'_update', b'_update60', b'_draw']


def toks(src):
    return [reflex.sig_key(t) for t in reflex.significant(reflex.lex(src))]


def read_code(path):
    p = rc.parse_p8(open(path, 'rb').read())
    return b''.join(l + b'\n' for l in p.sections.get('lua', []))


def header_tokens(name):
    # the key is compared by value: any spelling that denotes the package name is fine
    return toks(b'package._c[') + [('string', bytes(name))] + toks(b']=function()')


def find_sub(hay, needle, start=0):
    n = len(needle)
    if n == 0:
        return start
    for i in range(start, len(hay) - n + 1):
        if hay[i:i + n] == needle:
            return i
    return -1


def check_out(outpath, main_src, packages, res, case, sigtail, breaks=None):
    """packages: dict name -> expected body token list. breaks: dict name -> indices k into that list: body token k
    ends a statement that lasts to the end of its line (`?...`, short if, a line comment follows it), so token k+1 of
    the body must stand on a later line in the built code."""
    from pico8.lua import lua, lexer
    try:
        code = read_code(outpath)
        out = toks(code)
    except Exception as e:
        res.violation('C14|out-unreadable|%s' % sigtail, 'OUT code cannot be read/lexed: %r' % (e,), case)
        return False
    # picotool parses it to the end
    try:
        obj = lua.Lua.from_lines([code], version=33)
        rest = [t for t in obj.tokens[obj.root.end_pos:]
                if not isinstance(t, (lexer.TokSpace, lexer.TokNewline, lexer.TokComment))]
    except Exception as e:
        res.violation('C14|out-unparsable|%s' % sigtail, 'the built code does not parse: %r; code %r' % (e, code[:200]), case)
        return False
    if rest:
        res.violation('C14|out-not-fully-parsed|%s' % sigtail, 'the built code parses only up to %r; code %r' % (
            rest[0]._data, code[:300]), case)
        return False
    main = toks(main_src)
    if out[len(out) - len(main):] != main:
        res.violation('C14|main-changed|%s' % sigtail, 'the built code does not end with the main program\'s tokens; code %r' % (
            code[-200:],), case)
        return False
    X = out[:len(out) - len(main)]
    used = [False] * len(X)
    for name, body in packages.items():
        block = header_tokens(name) + body + [('keyword', b'end')]
        i = find_sub(X, block)
        if i < 0:
            hi = find_sub(X, header_tokens(name))
            if hi < 0:
                res.violation('C14|package-missing|%s' % sigtail, 'package %r is not defined in the built code %r' % (
                    name, code[:300]), case)
            else:
                res.violation('C14|package-code-differs|%s' % sigtail,
                              'package %r is defined but its code is not the file\'s tokens (minus game-loop functions); '
                              'built code %r' % (name, code[:400]), case)
            return False
        if find_sub(X, header_tokens(name), i + 1) >= 0:
            res.violation('C14|package-duplicated|%s' % sigtail, 'package %r is defined more than once' % name, case)
            return False
        if breaks and breaks.get(name):
            lexed = reflex.significant(reflex.lex(code))
            h = i + len(header_tokens(name))
            for k in breaks[name]:
                if k + 1 < len(body) + 1 and lexed[h + k + 1].line <= lexed[h + k].line:
                    res.violation('C14|package-line-statement-joined',
                                  'package %r: %r ends a statement that lasts to the end of its line, but the built code '
                                  'continues that line with %r: %r' % (name, lexed[h + k].text, lexed[h + k + 1].text, code[:300]), case)
                    return False
        for k in range(i, i + len(block)):
            if used[k]:
                res.violation('C14|package-overlap|%s' % sigtail, 'package blocks overlap', case)
                return False
            used[k] = True
    R = [t for t, u in zip(X, used) if not u]
    generic_header = toks(b'package._c[')
    extra = False
    i = find_sub(R, generic_header)
    while i >= 0:
        j = i + len(generic_header)
        if j + 2 < len(R) and R[j][0] == 'string' and R[j + 1] == ('symbol', b']') and R[j + 2] == ('symbol', b'='):
            extra = True
            break
        i = find_sub(R, generic_header, i + 1)
    if extra:
        res.violation('C14|extra-package|%s' % sigtail, 'the built code defines a package nobody required: %r' % (code[:300],),
                      case)
        return False
    if packages:
        # only presence is required (the statement does not fix the loader's text)
        if ('name', b'require') not in R or ('name', b'package') not in R:
            res.violation('C14|loader-missing|%s' % sigtail, 'loader (function require / package table) missing in %r' % (
                code[:300],), case)
            return False
    elif R:
        res.violation('C14|extra-code|%s' % sigtail, 'no package required, but code was added before main: %r' % (code[:200],), case)
        return False
    return True


_BUILDS = [0]


def build(d, args, keep_out=False, where=None):
    """Builds d/main.lua (keep_out: onto the cart a previous build left there, as a re-build does). Where OUT goes rotates over the builds of a run: next to main.lua, into a sub-directory, into a
    sibling directory outside the project (each holding decoy files named like common packages), and with main.lua
    named relative to the working directory - where the packages are looked up never depends on where the cart goes."""
    from pico8 import tool
    import zlib
    # (a function of the case, not of the order of builds: a replayed case takes the same placement)
    if where is None:
        where = zlib.crc32(open(os.path.join(d, 'main.lua'), 'rb').read() + repr([a.replace(d, '<D>') for a in args]).encode()) % 4
    outdir = {0: d, 1: os.path.join(d, 'build'), 2: d + '_out', 3: d}[where]
    os.makedirs(outdir, exist_ok=True)
    if where in (1, 2):
        for decoy in ('p.lua', 'q.lua', 'a.lua', 'util.lua', 'mod.lua', 'p1.lua', 'p2.lua', 'lib.lua'):
            if not os.path.exists(os.path.join(outdir, decoy)):
                open(os.path.join(outdir, decoy), 'wb').write(b'decoy_next_to_out=1\n')
    out = os.path.join(outdir, 'out.p8')
    if os.path.exists(out) and not keep_out:
        os.unlink(out)
    if where == 1:
        # another section taken from a cart that lives in the directory with the decoys: where the packages are looked up
        # does not depend on the other sources either
        art = os.path.join(outdir, 'art.p8')
        open(art, 'wb').write(b'pico-8 cartridge // http://www.pico-8.com\nversion 33\n__lua__\nart=1\n__gfx__\n' + b'1' * 128 + b'\n')
        args = list(args) + ['--sfx', art]
    cwd0 = os.getcwd()
    try:
        main = os.path.join(d, 'main.lua')
        if where == 3:
            os.chdir(d)
            main = 'main.lua'
        # every fifth case runs under --debug (what is logged may not change what is built)
        from pico8 import util
        dbg = ['--debug'] if zlib.crc32(repr(sorted(args)).encode() + open(os.path.join(d, 'main.lua'), 'rb').read()) % 5 == 0 else []
        try:
            rcode = tool.main(dbg + ['build', out, '--lua', main] + args)
        finally:
            util.set_verbosity(util.VERBOSITY_QUIET)
        return rcode, None, out
    except BaseException as e:
        return None, e, out
    finally:
        os.chdir(cwd0)
        if where == 2:
            for f in os.listdir(outdir):
                if f.endswith('.lua'):
                    os.unlink(os.path.join(outdir, f))


def fresh_dir():
    return tempfile.mkdtemp(prefix='c14_')


# ---------------------------------------------------------------- graphs
def graph_cases(npk):
    nodes = ['main'] + ['p%d' % i for i in range(1, npk + 1)]
    edges = [(a, b) for a in nodes for b in nodes[1:]]
    for mask in range(1 << len(edges)):
        yield [e for i, e in enumerate(edges) if mask >> i & 1], nodes


def run_graph(es, nodes, res):
    res.evaluations += 1
    d = fresh_dir()
    try:
        srcs = {}
        for n in nodes:
            body = b'v_%s=1\n' % n.encode()
            for (a, b) in es:
                if a == n:
                    body += b'require("%s")\n' % b.encode()
            body += b'w_%s=2\n' % n.encode()
            srcs[n] = body
            open(os.path.join(d, n + '.lua'), 'wb').write(body)
        reach = set()
        stack = ['main']
        while stack:
            x = stack.pop()
            for (a, b) in es:
                if a == x and b not in reach:
                    reach.add(b)
                    stack.append(b)
        case = {'kind': 'graph', 'edges': [list(e) for e in es], 'nodes': nodes}
        if reach:
            res.nontriv(tuple(es))
        rcode, err, out = build(d, [])
        shape = 'cycle' if has_cycle(es) else ('shared' if shared(es) else 'tree')
        if err is not None or rcode != 0:
            res.violation('C14|build-fails|graph-%s' % shape, 'build with require edges %r failed: %r' % (es, err or rcode), case)
            return
        pk = {n.encode(): toks(srcs[n]) for n in reach}
        if check_out(out, srcs['main'], pk, res, case, 'graph-' + shape):
            res.outcome(('graph', len(reach), shape))
    finally:
        shutil.rmtree(d, ignore_errors=True)


def has_cycle(es):
    adj = {}
    for a, b in es:
        adj.setdefault(a, []).append(b)

    def reach(x, seen):
        for y in adj.get(x, []):
            if y in seen:
                continue
            seen.add(y)
            reach(y, seen)
        return seen
    return any(n in reach(n, set()) for n in adj)


def shared(es):
    tgt = [b for a, b in es]
    return len(tgt) != len(set(tgt))


# ---------------------------------------------------------------- bodies
PLACEMENTS = ['none', 'start', 'middle', 'end', 'all', 'only']


def loop_fn(name):
    return b'function ' + name + b'()\n t=t+1\nend'


def body_case(filler_label, placement, final_nl, use_game_loop):
    """Returns (package source, expected body tokens)."""
    prog = L.render(L.wrap_stats([L.default_stat(filler_label)]))
    filler = L.assemble(prog, {len(prog.toks): b''})
    stmts = []      # (text, is_game_loop)
    if placement == 'none':
        stmts = [(filler, False), (b'k=1', False)]
    elif placement == 'start':
        stmts = [(loop_fn(b'_init'), True), (filler, False), (b'k=1', False)]
    elif placement == 'middle':
        stmts = [(filler, False), (loop_fn(b'_update'), True), (b'k=1', False)]
    elif placement == 'end':
        stmts = [(filler, False), (b'k=1', False), (loop_fn(b'_draw'), True)]
    elif placement == 'all':
        stmts = [(loop_fn(b'_init'), True), (filler, False), (loop_fn(b'_update60'), True), (b'k=1', False),
                 (loop_fn(b'_update'), True), (loop_fn(b'_draw'), True)]
    elif placement == 'only':
        stmts = [(loop_fn(b'_update'), True)]
    src = b'\n'.join(t for t, g in stmts) + (b'\n' if final_nl else b'')
    kept = [t for t, g in stmts if use_game_loop or not g]
    exp = []
    for t in kept:
        exp += toks(t)
    return src, exp, prog


def run_body(filler_label, placement, final_nl, ugl, res):
    res.evaluations += 1
    d = fresh_dir()
    try:
        src, exp, prog = body_case(filler_label, placement, final_nl, ugl)
        # "not requested": the option left out, or spelled out as false
        main = b'q=require("pk"%s)\nq=q+1\n' % (b', {use_game_loop=true}' if ugl else b'' if final_nl else b', {use_game_loop=false}')
        open(os.path.join(d, 'main.lua'), 'wb').write(main)
        open(os.path.join(d, 'pk.lua'), 'wb').write(src)
        case = {'kind': 'body', 'filler': filler_label, 'placement': placement, 'final_nl': final_nl, 'ugl': ugl}
        res.nontriv((filler_label, placement, final_nl, ugl))
        rcode, err, out = build(d, [])
        tail = 'placement=%s|nl=%s|ugl=%s' % (placement, 'y' if final_nl else 'n', 'y' if ugl else 'n')
        if filler_label == 'qprint':
            tail = 'qprint'
        if err is not None or rcode != 0:
            res.violation('C14|build-fails|%s|%s' % (type(err).__name__ if err else 'rc', tail),
                          'build of a package %r (filler %s) failed: %r' % (src, filler_label, err or rcode), case)
            return
        if check_out(out, main, {b'pk': exp}, res, case, tail):
            res.outcome(('body', placement, final_nl, ugl))
    finally:
        shutil.rmtree(d, ignore_errors=True)


# ---------------------------------------------------------------- directory / load-path layouts
def nested_loadpath_cases():
    """The load path must apply to require() calls at every nesting depth, however it was given (argument or
    environment variable): chains main -> a -> b (-> c) whose inner targets are reachable only through the custom
    path (absolute second library directory), or for which the default path would find a decoy instead
    (relative template, resolved against the requiring file's directory)."""
    out = []
    for via in ('arg', 'env'):
        for depth in (1, 2):
            # absolute library directory <D>/lib2: nested targets live only there
            files = {'a.lua': b'require("b")\na=1\n', 'lib2/b.lua': (b'require("c")\n' if depth == 2 else b'') + b'b=2\n'}
            exp = {b'a': 'a.lua', b'b': 'lib2/b.lua'}
            if depth == 2:
                files['lib2/c.lua'] = b'c=3\n'
                exp[b'c'] = 'lib2/c.lua'
            lp = '?.lua;<D>/lib2/?.lua'
            out.append(('nested-loadpath-abs-%s-%d' % (via, depth), files, b'require("a")\nz=1\n',
                        ['--lua-path', lp] if via == 'arg' else [], lp if via == 'env' else None, exp))
            # relative template mods/?.lua: a decoy with the same name is what the default path would find
            files = {'mods/a.lua': b'require("b")\na=1\n', 'mods/mods/b.lua': (b'require("c")\n' if depth == 2 else b'') + b'b=2\n',
                     'mods/b.lua': b'decoy=1\n'}
            exp = {b'a': 'mods/a.lua', b'b': 'mods/mods/b.lua'}
            if depth == 2:
                files['mods/mods/mods/c.lua'] = b'c=3\n'
                files['mods/mods/c.lua'] = b'decoy=2\n'
                exp[b'c'] = 'mods/mods/mods/c.lua'
            lp = 'mods/?.lua;?.lua'
            out.append(('nested-loadpath-rel-%s-%d' % (via, depth), files, b'require("a")\nz=1\n',
                        ['--lua-path', lp] if via == 'arg' else [], lp if via == 'env' else None, exp))
    return out


ODD_NAMES = [b'we"ird', b"it's", b'back\\slash', b'sp ace', b'br]]ack', b'do"uble"d', b'q"\'both', b'tr.ailing.', b'-dash',
             b'a"\\"b', b'end', b'#hash', b'per%cent', b'[[x]]', b'lib\\tools', b'a\\nb', b'x\\', b'\\\\unc']


def lua_literals(name):
    """Spellings of a string literal denoting `name` that a package author can use."""
    out = []
    if b'"' not in name and b'\\' not in name:
        out.append(b'"' + name + b'"')
    if b"'" not in name and b'\\' not in name:
        out.append(b"'" + name + b"'")
    out.append(b'"' + name.replace(b'\\', b'\\\\').replace(b'"', b'\\"') + b'"')
    for lvl in range(3):
        cl = b']' + b'=' * lvl + b']'
        if cl not in name and not name.endswith(b']') and not name.startswith(b'\n'):
            out.append(b'[' + b'=' * lvl + b'[' + name + cl)
            break
    return out


def odd_name_cases():
    """Package names that need care when they are written back as a string literal: quotes of either kind,
    backslashes, blanks, brackets, keywords, glyph bytes.  Required from main and (shared) from another package."""
    out = []
    for i, name in enumerate(ODD_NAMES):
        fname = name.decode('latin-1').encode('latin-1')
        files = {os.fsdecode(fname) + '.lua': b'odd=%d\n' % i, 'util.lua': b'u=1\n'}
        lits = lua_literals(name)
        for j, lit in enumerate(lits):
            main = b'require(' + lit + b')\nrequire("util")\nx=require ' + lits[(j + 1) % len(lits)] + b'\nz=1\n'
            out.append(('odd-name-%d-%d' % (i, j), files, main, [], None, {name: os.fsdecode(fname) + '.lua', b'util': 'util.lua'}))
    return out


def decoy_cases():
    """Package bodies around the rule 'top-level function definitions of the four game-loop names are left out':
    near misses that must stay (nested definitions, fields and methods of tables with such names, longer/shorter
    names, uses that are not definitions, text in strings and comments) and real definitions in awkward places
    (parameters, nested `end`s, several on one line, the same name twice)."""
    keep = [b'do function _init() a=1 end end', b'if x then function _draw() a=1 end end',
            b'function f() function _update() a=1 end end', b'function obj._init() a=1 end', b'function obj:_draw() a=1 end',
            b'function _init.sub() a=1 end', b'function _draw:m() a=1 end', b'function _update.a.b() a=1 end',
            b'function _init2() a=1 end', b'function my_init() a=1 end', b'function _updated() a=1 end',
            b'function _update6() a=1 end', b'function _update600() a=1 end', b'function __draw() a=1 end',
            b'function _INIT() a=1 end', b'_init()', b'x=_init', b'_draw=nil', b'x={_init=1}', b'x.y._update=1',
            b's="function _init() end"', b's=[[\nfunction _draw()\nend\n]]', b'-- function _init() end\ny=2',
            b'--[[\nfunction _update()\nend\n]] y=3', b'while x do function _update60() end break end',
            b'repeat function _draw() end until true', b'for i=1,2 do function _init() end end',
            b'local t = {function() function _init() end end}']
    strip = [b'function _update(dt) a=dt end', b'function _draw(...) a=1 end',
             b'function _init() local function g() end if a then b() end for i=1,2 do end end',
             b'function _init() a=1 end function _draw() b=2 end', b'function _update60() end',
             b'function _init() a=1 end function _init() a=2 end', b'function _draw() return function() end end',
             b'function\n_init\n(\n)\nend', b'function _init()--[[c]] end', b'function _update() ?1\nend',
             b'function _draw() if (a) b=1\nend', b'function _init() s="end" end', b'function _init() s=[[end]] end']
    out = []
    for i, k in enumerate(keep):
        body = b'p=1\n' + k + b'\nq=2\n'
        out.append(('decoy-keep-%d' % i, {'p.lua': body}, b'require("p")\nz=1\n', [], None, {b'p': 'p.lua'}))
        # the same decoy next to a real definition
        body2 = b'p=1\nfunction _init() i=1 end\n' + k + b'\nfunction _draw() d=1 end\nq=2\n'
        out.append(('decoy-keep-mixed-%d' % i, {'p.lua': body2, '__expected__': b'p=1\n' + k + b'\nq=2\n'},
                    b'require("p")\nz=1\n', [], None, {b'p': '__expected__'}))
    for i, k in enumerate(strip):
        for j, (pre, post) in enumerate(((b'p=1\n', b'\nq=2\n'), (b'p=1 ', b' q=2\n'), (b'', b''), (b'p=1\n', b''))):
            body = pre + k + post
            out.append(('decoy-strip-%d-%d' % (i, j), {'p.lua': body, '__expected__': pre + b' ' + post},
                        b'require("p")\nz=1\n', [], None, {b'p': '__expected__'}))
            out.append(('decoy-strip-kept-with-option-%d-%d' % (i, j), {'p.lua': body},
                        b'require("p", {use_game_loop=true})\nz=1\n', [], None, {b'p': 'p.lua'}))
    return out


LINE_STATS = [b'?"hi"', b'?1,2', b'if (c) z=1', b'if (c) z=1 else z=2', b'if (c) ?z', b'x=1 -- note', b'x=1 // note',
              b'-- note', b'?"a" -- note', b'if (c) return']


def linescoped_cases():
    """A statement that lasts to the end of its line directly before a game-loop function whose `end` shares its line
    with more code (and the function between two such statements, after a comment line, indented): leaving the
    function out may not pull the code after it onto the statement's line."""
    out = []
    fns = [b'function _init() i=1 end', b'function _update()\n u=1\nend', b'function _draw() end function _update60() end']
    for i, st in enumerate(LINE_STATS):
        for j, fn in enumerate(fns):
            for k, (gap, post) in enumerate(((b'\n', b' y=2\n'), (b'\n  ', b' y=2 w=3\n'), (b'\n\n', b' ?"b"\n'), (b'\n', b'\ny=2\n'),
                                             (b'\n-- about the loop\n', b' y=2\n'))):
                body = b'p=1\n' + st + gap + fn + post
                expected = b'p=1\n' + st + b'\n' + post
                nb = len(toks(b'p=1\n' + st)) - 1
                files = {'p.lua': body, '__expected__': expected, '__breaks__': {b'p': [nb] if toks(st) else []}}
                out.append(('line-stat-%d-%d-%d' % (i, j, k), files, b'require("p")\nz=1\n', [], None, {b'p': '__expected__'}))
    return out


def call_context_cases():
    """require() wherever an expression can stand in the main program and inside a package: every context must be
    found by the walker (the package gets embedded) and left as written."""
    ctxs = [b'local m = require("p")\n', b'local a, m = 1, require("p")\n', b'm = require("p").f\n', b'm = require("p")["f"]\n',
            b'require("p").f()\n', b'require("p"):g()\n', b'm = {lib = require("p")}\n', b'm = {require("p")}\n',
            b'f(require("p"))\n', b'f(1, require("p"), 2)\n', b'if require("p") then z=2 end\n', b'if (require("p")) z=2\n',
            b'while not require("p") do break end\n', b'for i=1,require("p").n do end\n', b'for k in pairs(require("p")) do end\n',
            b'function f() return require("p") end\n', b'local function f() local q = require("p") return q end\n',
            b'm = m or require("p")\n', b'm = -require("p").n\n', b'm = (require("p"))\n', b'm = require("p") .. ""\n',
            b'repeat m = require("p") until m\n', b'do local q = require("p") end\n', b't[require("p").k] = 1\n',
            b'm = function() return require("p") end\n', b'm = require "p"\n', b'm = require[[p]]\n', b"m = require'p'.f\n",
            b'?require("p").n\n', b'x += require("p").n\n', b'goto l ::l:: m = require("p")\n']
    out = []
    for i, c in enumerate(ctxs):
        out.append(('ctx-main-%d' % i, {'p.lua': b'return {f=function() end, g=function() end, n=1, k=1}\n'}, c + b'z=1\n', [], None,
                    {b'p': 'p.lua'}))
        out.append(('ctx-package-%d' % i, {'q.lua': c.replace(b'"p"', b'"p2"').replace(b"'p'", b"'p2'").replace(b'[[p]]', b'[[p2]]') + b'r=1\n',
                                           'p2.lua': b'return {f=function() end, g=function() end, n=1, k=1}\n'},
                    b'require("q")\nz=1\n', [], None, None))
    return out


def path_cases():
    # (files, main source, build args, env, expected packages {name: file})
    return [
        ('subdir', {'lib/p.lua': b'a=1\n'}, b'require("lib/p")\nz=1\n', [], None, {b'lib/p': 'lib/p.lua'}),
        ('nested-relative', {'lib/p.lua': b'require("q")\na=1\n', 'lib/q.lua': b'b=2\n'}, b'require("lib/p")\nz=1\n', [], None,
         {b'lib/p': 'lib/p.lua', b'q': 'lib/q.lua'}),
        ('lua-path-arg', {'lib/p.lua': b'a=1\n'}, b'require("p")\nz=1\n', ['--lua-path', 'lib/?.lua;?.lua'], None,
         {b'p': 'lib/p.lua'}),
        ('lua-path-env', {'vendor/p.lua': b'a=1\n'}, b'require("p")\nz=1\n', [], 'vendor/?.lua', {b'p': 'vendor/p.lua'}),
        ('explicit-ext', {'p.lua': b'a=1\n'}, b'require("p.lua")\nrequire("p")\nz=1\n', [], None,
         {b'p.lua': 'p.lua', b'p': 'p.lua'}),
        ('same-twice', {'p.lua': b'a=1\n'}, b'require("p")\nx=require("p")\nz=1\n', [], None, {b'p': 'p.lua'}),
        ('string-call', {'p.lua': b'a=1\n'}, b'require "p"\nz=1\n', [], None, {b'p': 'p.lua'}),
        ('init-path', {'m/init.lua': b'a=1\n'}, b'require("m")\nz=1\n', ['--lua-path', '?.lua;?/init.lua'], None,
         {b'm': 'm/init.lua'}),
        # a directory named like a package next to the package file
        ('dir-named-like-package', {'util.lua': b'u=1\n', 'util/vec.lua': b'v=2\n'},
         b'require("util")\nrequire("util/vec")\nz=1\n', [], None, {b'util': 'util.lua', b'util/vec': 'util/vec.lua'}),
        ('dir-named-like-package-loadpath', {'lib/util.lua': b'u=1\n', 'lib/util/vec.lua': b'v=2\n', 'util/x.lua': b'w=3\n'},
         b'require("util")\nz=1\n', ['--lua-path', 'lib/?;lib/?.lua'], None, {b'util': 'lib/util.lua'}),
        # --lua-path given while PICO8_LUA_PATH is set to something that does not find the package: the package named by
        # the argument's path must still be found and embedded (nothing under the environment's path has its name)
        ('lua-path-arg-with-env-elsewhere', {'arglib/mod.lua': b'a=1\n', 'envlib/other.lua': b'o=1\n'},
         b'require("mod")\nz=1\n', ['--lua-path', 'arglib/?.lua'], 'envlib/?.lua', {b'mod': 'arglib/mod.lua'}),
        ('lua-path-abs-arg-with-default-env', {'arglib/mod.lua': b'a=1\n'},
         b'require("mod")\nz=1\n', ['--lua-path', '<D>/arglib/?.lua'], '?;?.lua', {b'mod': 'arglib/mod.lua'}),
        ('lua-path-arg-with-env-nested', {'arglib/mod.lua': b'require("deep")\na=1\n', 'arglib/arglib/deep.lua': b'd=1\n',
                                          'envlib/x.lua': b'o=1\n'},
         b'require("mod")\nz=1\n', ['--lua-path', 'arglib/?.lua;?.lua'], '<D>/envlib/?.lua',
         {b'mod': 'arglib/mod.lua', b'deep': 'arglib/arglib/deep.lua'}),
        # package names that differ only in letter case are different packages (two files, two table entries)
        ('case-variant-names', {'Util.lua': b'U=1\n', 'util.lua': b'u=2\n', 'UTIL.lua': b'uu=3\n'},
         b'require("util")\nrequire("Util")\nrequire("UTIL")\nrequire("util")\nz=1\n', [], None,
         {b'util': 'util.lua', b'Util': 'Util.lua', b'UTIL': 'UTIL.lua'}),
        # many packages: a star of 40 and a chain of 40 (each defined exactly once, none lost)
        ('star-40', dict(('s%d.lua' % i, b's%d=%d\n' % (i, i)) for i in range(40)),
         b''.join(b'require("s%d")\n' % i for i in range(40)) + b'z=1\n', [], None,
         dict((b's%d' % i, 's%d.lua' % i) for i in range(40))),
        ('chain-40', dict(('c%d.lua' % i, (b'require("c%d")\n' % (i + 1) if i < 39 else b'') + b'c%d=%d\n' % (i, i)) for i in range(40)),
         b'require("c0")\nz=1\n', [], None, dict((b'c%d' % i, 'c%d.lua' % i) for i in range(40))),
    ] + nested_loadpath_cases() + odd_name_cases() + call_context_cases() + decoy_cases() + linescoped_cases()


def run_path(pc, res):
    name, files, main, args, env, expected = pc
    res.evaluations += 1
    d = fresh_dir()
    old = os.environ.pop('PICO8_LUA_PATH', None)
    try:
        for f, data in files.items():
            if f in ('__expected__', '__breaks__'):
                continue
            os.makedirs(os.path.dirname(os.path.join(d, f)) or d, exist_ok=True)
            open(os.path.join(d, f), 'wb').write(data)
        open(os.path.join(d, 'main.lua'), 'wb').write(main)
        args = [a.replace('<D>', d) for a in args]
        if env:
            os.environ['PICO8_LUA_PATH'] = env.replace('<D>', d)
        case = {'kind': 'path', 'name': name}
        res.nontriv(('path', name))
        rcode, err, out = build(d, args)
        if err is not None or rcode != 0:
            res.violation('C14|build-fails|path-%s' % name, 'build (%s) failed: %r' % (name, err or rcode), case)
            return
        if expected is None:
            expected = {b'q': 'q.lua', b'p2': 'p2.lua'}
        pk = {n: toks(files[f]) for n, f in expected.items()}
        if check_out(out, main, pk, res, case, 'path-' + name, breaks=files.get('__breaks__')):
            res.outcome(('path', name))
    finally:
        os.environ.pop('PICO8_LUA_PATH', None)
        if old is not None:
            os.environ['PICO8_LUA_PATH'] = old
        shutil.rmtree(d, ignore_errors=True)


ERRORS = [('missing-file', b'require("nothere")\n'), ('non-literal', b'n="p"\nrequire(n)\n'), ('no-args', b'require()\n'),
          ('three-args', b'require("p", {use_game_loop=true}, 1)\n'), ('second-not-table', b'require("p", 1)\n'),
          ('unknown-option', b'require("p", {foo=true})\n'), ('option-not-bool', b'require("p", {use_game_loop=1})\n'),
          ('missing-nested', b'require("p2")\n')]


def run_error(ec, res):
    name, main = ec
    res.evaluations += 1
    d = fresh_dir()
    try:
        open(os.path.join(d, 'main.lua'), 'wb').write(main)
        open(os.path.join(d, 'p.lua'), 'wb').write(b'a=1\n')
        open(os.path.join(d, 'p2.lua'), 'wb').write(b'require("gone")\n')
        case = {'kind': 'error', 'name': name}
        res.nontriv(('error', name))
        rcode, err, out = build(d, [])
        if err is None and rcode == 0:
            res.violation('C14|error-accepted|%s' % name, 'build succeeded for main program %r' % main, case)
            return
        if os.path.exists(out):
            res.violation('C14|error-wrote-out|%s' % name, 'build failed for %r but wrote OUT' % main, case)
            return
        res.outcome(('error', name))
    finally:
        shutil.rmtree(d, ignore_errors=True)


def shards(tier, seed):
    npk = BOUNDS[tier]['graph_packages']
    ng = 1 << ((npk + 1) * npk)
    n = 16 if tier == 'quick' else 64
    items = [('graphs', tier, k, n) for k in range(n)]
    fl = L.STAT_LABELS
    items += [('bodies', f) for f in fl]
    items += [('paths',), ('errors',), ('resave',), ('siblings', 0), ('siblings', 1), ('siblings', 2)]
    return items


def run_shard(item):
    res = ShardResult()
    if item[0] == 'graphs':
        _, tier, k, n = item
        for i, (es, nodes) in enumerate(graph_cases(BOUNDS[tier]['graph_packages'])):
            if i % n == k:
                run_graph(es, nodes, res)
        if k == 0:
            res.sample({'edges': [['main', 'p1'], ['p1', 'p2'], ['p2', 'p1']], 'files': 'v_X=1 / require(...) / w_X=2'})
    elif item[0] == 'bodies':
        for placement in PLACEMENTS:
            for final_nl in (True, False):
                for ugl in (False, True):
                    run_body(item[1], placement, final_nl, ugl, res)
        if item[1] == 'assign':
            res.sample({'package': body_case('assign', 'middle', False, False)[0], 'use_game_loop': False})
    elif item[0] == 'paths':
        for pc in path_cases():
            run_path(pc, res)
    elif item[0] == 'errors':
        for ec in ERRORS:
            run_error(ec, res)
    elif item[0] == 'siblings':
        run_siblings(item[1], res)
        res.sample({'siblings': 'main requires a then b (and a requires c); every pair of game-loop placements in a and b'})
    elif item[0] == 'resave':
        resave_history(res)
        res.sample({'history': 'build; re-save pk.lua and main.lua; build again in the same directory (x3)'})
    return res


def run_siblings(part, res):
    """Graphs x bodies: one requirer loads several packages whose bodies carry game-loop functions in different places."""
    combos = [(pa, pb) for pa in PLACEMENTS for pb in PLACEMENTS]
    for idx, (pa, pb) in enumerate(combos):
        if idx % 3 != part:
            continue
        for ugl_a in (False, True):
            res.evaluations += 1
            d = fresh_dir()
            try:
                sa, ea, _ = body_case('assign', pa, True, ugl_a)
                sb_, eb, _ = body_case('local', pb, idx % 2 == 0, False)
                sc, ec, _ = body_case('callstat', 'middle', True, False)
                sa2 = b'require("c")\n' + sa
                ea2 = toks(b'require("c")\n') + ea
                main = b'require("a"%s)\nrequire("b")\nz=1\n' % (b', {use_game_loop=true}' if ugl_a else b'')
                for n, src in (('a', sa2), ('b', sb_), ('c', sc), ('main', main)):
                    open(os.path.join(d, n + '.lua'), 'wb').write(src)
                case = {'kind': 'siblings', 'part': part, 'pa': pa, 'pb': pb, 'ugl_a': ugl_a}
                res.nontriv(('siblings', pa, pb, ugl_a))
                rcode, err, out = build(d, [])
                tail = 'siblings|a=%s|b=%s' % (pa, pb)
                if err is not None or rcode != 0:
                    res.violation('C14|build-fails|%s' % tail, 'build with sibling packages failed: %r' % (err or rcode,), case)
                    continue
                if check_out(out, main, {b'a': ea2, b'b': eb, b'c': ec}, res, case, tail):
                    res.outcome(('siblings', pa, pb))
            finally:
                shutil.rmtree(d, ignore_errors=True)


def resave_history(res):
    for where in (0, 1, 3):
        resave_history_at(res, where)


def resave_history_at(res, where):
    """Three builds of one project, its sources edited in between, each ONTO the cart the previous build wrote (what
    `p8tool build game.p8 --lua main.lua` run again does): the cart holds the current program and packages only."""
    d = fresh_dir()
    try:
        for step in range(3):
            body = b'v%d=%d\nfunction _draw() t=%d end\nw%d=1\n' % (step, step, step, step)
            main = b'require("pk")\nm%d=1\n' % step
            open(os.path.join(d, 'pk.lua'), 'wb').write(body)
            open(os.path.join(d, 'main.lua'), 'wb').write(main)
            res.evaluations += 1
            res.nontriv(('resave', step))
            case = {'kind': 'resave', 'step': step}
            rcode, err, out = build(d, [], keep_out=True, where=where)
            if err is not None or rcode != 0:
                res.violation('C14|build-fails|resave', 'build %d in the same directory failed: %r' % (step, err or rcode), case)
                return
            exp = toks(b'v%d=%d\nw%d=1\n' % (step, step, step))
            if check_out(out, main, {b'pk': exp}, res, case, 'resave-step%d' % step):
                res.outcome(('resave', step))
    finally:
        shutil.rmtree(d, ignore_errors=True)



def replay(case):
    res = ShardResult()
    k = case['kind']
    if k == 'siblings':
        run_siblings(case['part'], res)
    elif k == 'resave':
        resave_history(res)
    elif k == 'graph':
        run_graph([tuple(e) for e in case['edges']], case['nodes'], res)
    elif k == 'body':
        run_body(case['filler'], case['placement'], case['final_nl'], case['ugl'], res)
    elif k == 'path':
        for pc in path_cases():
            if pc[0] == case['name']:
                run_path(pc, res)
    else:
        for ec in ERRORS:
            if ec[0] == case['name']:
                run_error(ec, res)
    return [(s, v[0]) for s, v in res.violations.items()]
