"""C07 — the lexer agrees with the PICO-8/Lua lexical grammar on kinds, extents, values, positions.

Bounded-exhaustive enumeration of source texts (all byte strings <= L over a 26-character alphabet built
from the overlapping-operator / numeral / string / comment / newline decisions; all ordered pairs (and
triples) of ~110 token-class representatives; keyword-embedding identifiers; multi-line forms) through the
real lexer, judged by the independent reference lexer lib/reflex.py; each text fed both as one chunk and
split at line ends.
"""
from lib import reflex
from lib import core
from lib.core import ShardResult

LEVEL = 'exploration'
RULE = ('(1) every byte string of length <= L (quick 4, thorough 5) over the 26 characters '
        '". = < > ~ ! - / [ ] : ^ \\ 0 1 x b e a _ \\" \' \\x80 space LF CR"; (2) every ordered pair of token-class '
        'representatives adjacent and space-separated, thorough: every ordered triple adjacent; (3) every keyword with '
        'a letter/digit/_/high byte as prefix, suffix, infix; (4) multi-line strings/comments of bracket level 0-2; each '
        'accepted text is also fed split after every LF; a case is non-trivial when the reference accepts it and it has '
        '>= 2 tokens; distinct = distinct source text')
ASSUMPTIONS = ['reference lexer lib/reflex.py implements Lua 5.2 llex + the PICO-8 extensions of the dialect; texts it '
               'rejects (malformed numerals, bad escapes, unterminated forms, "::" outside a label) demand nothing',
               'dialect exclusions: newer PICO-8 operators, hex p-exponents, empty hex fraction "0x8.", NUL, \\u{}',
               'long-string values are compared as raw bracket bodies (see DESIGN: leading-newline rule noted)']
BOUNDS = {'quick': {'char_len': 4, 'token_tuples': 2}, 'thorough': {'char_len': 5, 'token_tuples': 3}}

ALPHABET = [b'.', b'=', b'<', b'>', b'~', b'!', b'-', b'/', b'[', b']', b':', b'^', b'\\', b'0', b'1', b'x', b'b',
            b'e', b'a', b'_', b'"', b"'", b'\x80', b' ', b'\n', b'\r']

KEYWORDS = sorted(reflex.KEYWORDS)
REPS = (KEYWORDS + [s for s in reflex.SYMBOLS if s != b'::'] +
        [b'a', b'e', b'x', b'b1', b'_1', b'end_', b'\x80a', b'a\x8b', b'fork', b'E5', b'xff',
         b'1', b'12', b'1.', b'.5', b'1.5', b'1e5', b'1e-5', b'1e+5', b'1E5', b'0x1f', b'0X1F', b'0x1.8', b'0x.8',
         b'0b1', b'0B1', b'0b1.1', b'0b.1',
         b'"a"', b"'a'", b'"\\""', b'[[a]]', b'[=[a]=]', b'"\\65"', b'""',
         b'"a\\z  "', b'" b"', b"'\\z'", b'"\\x41\\\n c"', b'[[ d]]',
         b'::a::', b'-- c\n', b'//c\n', b'--[[c]]', b'--[=[c]=]', b'\n', b'\r\n'])


def lexer_mod():
    from pico8.lua import lexer
    return lexer


def pt_lex(chunks, version=None):
    lexer = lexer_mod()
    lx = lexer.Lexer(version=core.lua_version(chunks) if version is None else version)
    lx.process_lines(chunks)
    return lx.tokens


def num_class(text):
    t = text.lower()
    c = 'hex' if t[:2] == b'0x' else ('bin' if t[:2] == b'0b' else 'dec')
    if t != text:
        c += '-upper'
    if b'.' in t:
        c += '-lead' if (t.startswith(b'.') or t[2:3] == b'.') else ('-trail' if t.endswith(b'.') else '-frac')
    if c.startswith('dec') and b'e' in t:
        c += '-exp' + ('+' if b'e+' in t else ('-' if b'e-' in t else ''))
    return c


def tok_class(kind, text):
    if kind in ('keyword', 'symbol'):
        return '%s:%s' % (kind, text.decode('latin-1'))
    if kind == 'number':
        return 'number:' + num_class(text)
    if kind == 'name':
        if any(c >= 0x80 for c in text):
            return 'name:high'
        return 'name'
    if kind == 'string':
        return 'string'
    if kind == 'comment':
        if text.startswith(b'//'):
            return 'comment://'
        if text.startswith(b'--[['):
            return 'comment:--[['
        if text.startswith(b'--[='):
            return 'comment:--[=['
        return 'comment:--'
    if kind == 'newline':
        return 'newline:' + {b'\n': 'LF', b'\r': 'CR', b'\r\n': 'CRLF'}.get(text, '?')
    return kind


def compare(src, res, fam, via=None):
    """via = None: the lexer object is driven directly; via = (name, fn): fn(src) returns the token list picotool
    reports for the source when it arrives through that path (a real .p8 / .p8.png file); signatures get the path name."""
    res.evaluations += 1
    case = {'src': src}
    if via is not None:
        case['via'] = via[0]
    try:
        ref = reflex.lex(src)
    except reflex.Reject:
        res.count('rejected_by_reference')
        return
    res.count('accepted_by_reference')
    if len(ref) >= 2:
        res.nontriv((src, via[0]) if via else src)
    if via is not None:
        r2 = ShardResult()
        _compare_tokens(src, ref, r2, fam, case, via[1])
        for sig, v in r2.violations.items():
            res.violations.setdefault(sig + '|via=' + via[0], (v[0] + ' [source loaded through %s]' % via[0], v[1], v[2]))
        res.outcomes |= r2.outcomes
        return
    _compare_tokens(src, ref, res, fam, case, None)


def _compare_tokens(src, ref, res, fam, case, lexfn):
    try:
        pt = pt_lex([src]) if lexfn is None else lexfn(src)
    except Exception as e:
        first = ref[0]
        res.violation('C07|lexer-raise|%s|near:%s' % (type(e).__name__, near_class(src, e, ref)),
                      'valid text %r: lexer raised %s' % (src, e), case)
        return
    ad = reflex.adapt_picotool(pt)
    k = 0
    for k in range(min(len(ad), len(ref))):
        a = ad[k]
        r = ref[k]
        akind, adata, aline, acol, atok = a
        if akind == 'keyword' and r.kind == 'name' and r.text.startswith(adata) and len(r.text) > len(adata):
            res.violation('C07|keyword-split-from-name|%s' % ('high-byte' if r.text[len(adata)] >= 0x80 else 'ascii'),
                          '%r: lexed as keyword %r + rest, grammar says one name %r' % (src, adata, r.text), case)
            return
        if akind != r.kind:
            res.violation('C07|kind|ref=%s|got=%s' % (tok_class(r.kind, r.text), tok_class(akind, adata)),
                          '%r: token %d is %s %r, grammar says %s %r' % (src, k, akind, adata, r.kind, r.text), case)
            return
        if r.kind == 'string':
            if r.level is None:
                if adata != r.value or atok._quote != r.quote:
                    res.violation('C07|string-value|%s' % string_class(r.text),
                                  '%r: string %r decodes to %r, grammar says %r' % (src, r.text, adata, r.value), case)
                    return
            else:
                body = r.text[r.level + 2:-(r.level + 2)]
                if adata != body or atok._multiline_quote != b'=' * r.level:
                    res.violation('C07|longstring|level%d' % r.level,
                                  '%r: long string body %r, grammar says %r' % (src, adata, body), case)
                    return
        else:
            if adata != r.text:
                res.violation('C07|extent|ref=%s|got=%s' % (tok_class(r.kind, r.text), tok_class(akind, adata)),
                              '%r: token %d is %r, longest match says %r' % (src, k, adata, r.text), case)
                return
        if r.kind == 'number':
            try:
                v = atok.value
            except Exception as e:
                res.violation('C07|number-value-raise|%s' % num_class(r.text),
                              '%r: .value of %r raised %r' % (src, r.text, e), case)
                return
            if v != to_float(r.value):
                res.violation('C07|number-value|%s' % num_class(r.text),
                              '%r: value of %r is %r, grammar says %r' % (src, r.text, v, to_float(r.value)), case)
                return
        if (aline, acol) != (r.line, r.col):
            prev = ref[k - 1] if k else None
            res.violation('C07|position|after=%s' % (tok_class(prev.kind, prev.text) if prev else 'start'),
                          '%r: token %d %r reported at line %r col %r, is at line %d col %d' % (
                              src, k, r.text, aline, acol, r.line, r.col), case)
            return
    if len(ad) != len(ref):
        res.violation('C07|count|%s' % fam, '%r: %d tokens, grammar says %d' % (src, len(ad), len(ref)), case)
        return
    res.outcome(tuple(r.kind for r in ref[:6]))
    if lexfn is not None:
        return
    # the lines as a one-shot iterable (a generator, an open file) instead of a list
    if len(src) > 2 and (len(src) + src[0]) % 5 == 0:
        try:
            lua = __import__('pico8.lua.lua', fromlist=['lua'])
            parts_ = src.split(b'\n')
            chunks_ = [p_ + b'\n' for p_ in parts_[:-1]] + ([parts_[-1]] if parts_[-1] else [])
            a_ = [(type(t).__name__, t._data) for t in pt_lex(list(chunks_))]
            b_ = [(type(t).__name__, t._data) for t in pt_lex((ln for ln in chunks_), version=core.lua_version(chunks_))]
            if a_ != b_:
                res.violation('C07|generator-feed-differs', '%r: tokens differ when the lines arrive as a generator instead of a list' % src, case)
                return
        except Exception as e:
            res.violation('C07|generator-feed-raise|%s' % type(e).__name__, '%r: feeding the lines as a generator raised %r' % (src, e), case)
            return
    # chunk invariance: split after every LF
    if b'\n' in src[:-1]:
        parts = src.split(b'\n')
        chunks = [p + b'\n' for p in parts[:-1]] + ([parts[-1]] if parts[-1] else [])
        res.count('chunked_runs')
        try:
            pt2 = pt_lex(chunks)
        except Exception as e:
            res.violation('C07|chunked-raise|%s' % type(e).__name__,
                          '%r lexes as one chunk but raises %s when split at line ends' % (src, e), case)
            return
        s1 = [(type(t).__name__, t._data, t._lineno, t._charno) for t in pt]
        s2 = [(type(t).__name__, t._data, t._lineno, t._charno) for t in pt2]
        if s1 != s2:
            j = next((i for i in range(min(len(s1), len(s2))) if s1[i] != s2[i]), min(len(s1), len(s2)))
            res.violation('C07|chunked-differs|%s' % (s1[j][0] if j < len(s1) else 'count'),
                          '%r: token %d differs between one chunk %r and per-line chunks %r' % (
                              src, j, s1[j] if j < len(s1) else None, s2[j] if j < len(s2) else None), case)


def to_float(fr):
    try:
        return float(fr)
    except OverflowError:
        return float('inf')


def string_class(text):
    if b'\\x' in text:
        return 'esc-x'
    if b'\\z' in text:
        return 'esc-z'
    if b'\\\n' in text or b'\\\r' in text:
        return 'esc-newline'
    if any(48 <= c <= 57 for c in text):
        return 'esc-decimal' if b'\\' in text else 'plain'
    return 'esc' if b'\\' in text else 'plain'


def near_class(src, e, ref):
    """Class of the reference token at which picotool's lexer gave up."""
    msg = str(e)
    # picotool reports 'remaining: ...'; find the reference token covering the failure offset
    try:
        pt = None
        lexer = lexer_mod()
        lx = lexer.Lexer(version=core.lua_version(src))
        try:
            lx.process_lines([src])
        except Exception:
            pass
        consumed = sum(len(t._data) if not isinstance(t, lexer.TokString) else 0 for t in lx.tokens)
        n = len(reflex.adapt_picotool(lx.tokens))
        if n < len(ref):
            r = ref[n]
            return tok_class(r.kind, r.text)
    except Exception:
        pass
    return 'unknown'


# ---------------------------------------------------------------- families
def nth_string(idx, alpha):
    k = len(alpha)
    ln = 0
    n = 1
    while idx >= n:
        idx -= n
        ln += 1
        n *= k
    out = []
    for _ in range(ln):
        out.append(alpha[idx % k])
        idx //= k
    return b''.join(reversed(out))


def count_strings(maxlen, k):
    return sum(k ** i for i in range(maxlen + 1))


def keyword_embeddings():
    out = []
    for kw in KEYWORDS:
        for ch in (b'x', b'9', b'_', b'\x80'):
            out.append(kw + ch)
            if ch != b'9':
                out.append(ch + kw)
            out.append(kw[:1] + ch + kw[1:])
            out.append(kw + ch + b' ' + kw)
            out.append(kw.upper())
            out.append(kw.capitalize() + b'=' + kw[:-1] + kw[-1:].upper())
            out.append(kw + b'(' + ch + b')' if ch != b'9' else kw + b'(9)')
    return out


def multiline_forms():
    out = []
    bodies = [b'', b'a', b'a\nb', b'\na', b'a]b', b'a]]b', b'a]=]b', b'a]==]b', b'\n\n', b'a\r\nb', b'--x', b'"q"',
              b'a\n]', b']', b'=]', b'a\n\nb\n']
    for lvl in (0, 1, 2):
        eq = b'=' * lvl
        op, cl = b'[' + eq + b'[', b']' + eq + b']'
        for body in bodies:
            if cl in body:
                continue
            if body.endswith(b']') and lvl == 0:
                continue
            for pre, post in ((b'x=', b'\ny=1\n'), (b'', b''), (b'f', b' z'), (b'x=', b' --c\nz=2')):
                out.append(pre + op + body + cl + post)
            for pre, post in ((b'', b'\ny=1\n'), (b'x=1 ', b''), (b'x=1\n', b'y=2')):
                out.append(pre + b'--' + op + body + cl + post)
    for q in (b'"', b"'"):
        for body in (b'a\\\nb', b'a\\\r\nb', b'\\\n', b'a\\z  \n  b', b'a\\nb', b'\\' + q, b'a\\\nb\\\nc',
                     # \z skips whole blank lines: the string stays open across empty chunks
                     b'a\\z\n\n  b', b'a\\z\n\n\n\nb', b'a\\z\r\n\r\n b', b'\\z\n\n', b'a\\\n\\z\n\nb', b'a\\z \n\t\n\n b\\z\n\n'):
            for pre, post in ((b'x=', b'\ny=1\n'), (b'', b''), (b'x=', b' y=2\nz=3')):
                out.append(pre + q + body + q + post)
    # positions after different line ends
    for nl in (b'\n', b'\r\n', b'\r'):
        out.append(b'a' + nl + b'b' + nl + b' c')
        out.append(b'--c' + nl + b'x')
        out.append(b'//c' + nl + b'x')
        out.append(b'x = 1' + nl + nl + b'  y = 2' + nl)
    return out


def escapes_forms():
    out = []
    for q in (b'"', b"'"):
        for e in (b'a', b'b', b'f', b'n', b'r', b't', b'v', b'\\', b'"', b"'", b'*', b'#', b'-', b'|', b'+', b'^',
                  b'0', b'00', b'000', b'1', b'12', b'123', b'255', b'0001', b'1234', b'14', b'15', b'x41', b'xfF', b'x00',
                  b'065a', b'9', b'99z'):
            for tail in (b'', b'1', b'z'):
                out.append(b'x=' + q + b'p\\' + e + tail + q)
    for b in range(1, 256):
        if b in (10, 13, 34, 92):
            continue
        out.append(b'"' + bytes([b]) + b'"')
        if b != 39:
            out.append(b"'" + bytes([b]) + b"'")
        if b not in (10, 13):
            out.append(b'--' + bytes([b]))
        if b >= 0x80:
            out.append(b'a' + bytes([b]) + b'=' + bytes([b]) + b'1')
    return out


def _digit_strings(alpha, maxlen):
    out = [b'']
    layer = [b'']
    for _ in range(maxlen):
        layer = [x + bytes([c]) for x in layer for c in alpha]
        out += layer
    return out


def number_literals(tier):
    """Exhaustive numeric literals: binary (int <= 4 digits, fraction <= 6 digits, plus one-hot fractions up to 20
    digits), hexadecimal (int <= 2 digits, fraction <= 5 digits over a covering digit alphabet), decimal (covering
    integer parts x fractions x exponents)."""
    out = []
    bi = _digit_strings(b'01', 4)
    bf = _digit_strings(b'01', 6 if tier == 'quick' else 8)
    for pre in (b'0b', b'0B'):
        for i in bi:
            out.append(pre + i)
            for f in bf:
                out.append(pre + i + b'.' + f)
        for n in range(1, 21):
            out.append(pre + b'0.' + b'0' * (n - 1) + b'1')
            out.append(pre + b'11.' + b'1' * n)
    hi = _digit_strings(b'019aF', 2)
    hf = _digit_strings(b'08fA' if tier == 'quick' else b'018fA', 5)
    for pre in (b'0x', b'0X'):
        for i in hi:
            out.append(pre + i)
            for f in hf:
                out.append(pre + i + b'.' + f)
    ints = [b'', b'0', b'1', b'9', b'10', b'123', b'32767', b'32768', b'65536', b'007']
    fracs = [None, b'', b'0', b'5', b'25', b'0625', b'00001', b'99999', b'000015259']
    exps = [b'', b'e0', b'e1', b'E2', b'e+2', b'E+0', b'e-2', b'E-1', b'e10', b'e-10', b'e308', b'e-400', b'e', b'e+', b'e-']
    for i in ints:
        for f in fracs:
            for e in exps:
                lit = i + (b'' if f is None else b'.' + f) + e
                if lit:
                    out.append(lit)
    return out



# ---------------------------------------------------------------- the same sources through real cart files and the CLI
P8_HEAD = b'pico-8 cartridge // http://www.pico-8.com\nversion %d\n__lua__\n'


def _cart_ok(src):
    """Sources a .p8 file can hold verbatim: end in LF, no NUL, no line that reads as a section header."""
    import re
    return (src.endswith(b'\n') and b'\x00' not in src and not re.search(br'(^|\n)__\w+__\n', src)
            and not re.search(br'(^|\n)\s*#include\s', src))


def write_p8(path, src):
    from pico8.lua import lua
    with open(path, 'wb') as fh:
        fh.write(P8_HEAD % core.lua_version(src))
        fh.write(lua.p8scii_to_unicode(src).encode('utf-8'))
        fh.write(b'__gfx__\n' + b'0' * 128 + b'\n')


def write_png(path, src):
    from lib import refcodec as rc
    mem = bytearray(0x8001)
    mem[0x4300:0x4300 + len(src)] = src
    mem[0x8000] = core.lua_version(src)
    rows = [bytes(160 * 4)] * 205
    with open(path, 'wb') as fh:
        fh.write(rc.png_encode_rgba(160, 205, rc.stego_pack(bytes(mem), 160, 205, rows)))


def expected_listtokens(src, ref):
    """What `p8tool listtokens` prints for the source, derived from the reference tokens: '<text>' for blanks and
    comments, a line break per newline token, '<index:value>' for everything else (index counts those only)."""
    out = []
    pos = 0
    i = 0
    while i < len(ref):
        t = ref[i]
        if t.kind == 'newline':
            out.append('\n')
        elif t.kind in ('space', 'comment'):
            out.append('<{}>'.format(t.text))
        else:
            if t.kind == 'symbol' and t.text == b'::':
                j = i + 1
                while not (ref[j].kind == 'symbol' and ref[j].text == b'::'):
                    j += 1
                val = src[t.start:ref[j].end]
                i = j
            elif t.kind == 'number':
                val = to_float(t.value)
            elif t.kind == 'string':
                val = t.value if t.level is None else t.text[t.level + 2:-(t.level + 2)]
            else:
                val = t.text
            out.append('<{}:{}>'.format(pos, val))
            pos += 1
        i += 1
    out.append('\n')
    return ''.join(out)


def cart_sources(kind, tier, part):
    """Sources for the cart-file paths (a cart load also parses, so they are programs): for .p8 the witness program of
    every grammar-adjacent terminal pair in its default and its tightest layout, plus the keyword / multi-line /
    escape forms above that are whole programs; for .p8.png (slow decoder) the multi-line forms and one sixteenth of
    the witnesses. Returned per part (of CART_PARTS)."""
    from props import c08
    from lib import luagen as L
    out = []
    if kind == 'p8' or part == 0:
        for prog in c08.programs(tier, 'pairs', part, CART_PARTS):
            if isinstance(prog, tuple):
                continue
            out.append(L.assemble(prog, {}))
            out.append(L.tight_layout(prog)[0])
    forms = multiline_forms() + (keyword_embeddings() + escapes_forms() if kind == 'p8' else [])
    out += forms[part::CART_PARTS]
    seen = set()
    res = []
    lua = __import__('pico8.lua.lua', fromlist=['lua'])
    for s_ in out:
        s_ = s_ if s_.endswith(b'\n') else s_ + b'\n'
        if s_ in seen or not _cart_ok(s_):
            continue
        seen.add(s_)
        if kind == 'png' and b'\r' in s_:
            continue        # the .p8.png reader turns CR into a blank (its documented normalisation, C04)
        try:
            reflex.lex(s_)
        except reflex.Reject:
            continue
        try:
            # differential domain: texts the library accepts as a program when handed over directly
            lua.Lua.from_lines([s_], version=core.lua_version(s_))
        except Exception:
            continue
        res.append(s_)
    return res


CART_PARTS = 16


def check_cart_paths(kind, tier, part, res):
    import io
    import os
    import tempfile
    from pico8 import tool, util
    from pico8.game import file as p8file
    srcs = cart_sources(kind, tier, part)
    d = tempfile.mkdtemp(prefix='c07cart_')
    ext = '.p8' if kind == 'p8' else '.p8.png'
    paths = []
    for i, src in enumerate(srcs):
        pth = os.path.join(d, 'c%05d%s' % (i, ext))
        (write_p8 if kind == 'p8' else write_png)(pth, src)
        paths.append(pth)

        def load(src_, _p=pth):
            toks = p8file.from_file(_p).lua.tokens
            if kind == 'png' and toks and toks[-1]._data == b'\n' and \
                    len(reflex.adapt_picotool(toks)) == len(reflex.lex(src_)) + 1:
                toks = toks[:-1]     # the .p8.png reader may supply one final newline (its normalisation, C04)
            return toks
        compare(src, res, 'cart', via=(kind + '-file', load))
        res.count('cart_file_loads')
    # `p8tool listtokens` on batches of those files
    old_stream, old_verb = util._write_stream, util._verbosity
    try:
        bsize = 40 if kind == 'p8' else 1
        for lo in range(0, len(paths), bsize):
            batch = paths[lo:lo + bsize]
            buf = io.StringIO()
            util._write_stream = buf
            util.set_verbosity(util.VERBOSITY_NORMAL)
            try:
                rcode = tool.main(['listtokens'] + batch)
            except BaseException as e:
                rcode = e
            finally:
                util._write_stream = old_stream
                util.set_verbosity(old_verb)
            got = buf.getvalue()
            res.evaluations += 1
            res.count('listtokens_cli_files', len(batch))
            want_parts = []
            if kind == 'png' and got == expected_listtokens(srcs[lo] + b'\n', reflex.lex(srcs[lo] + b'\n')):
                continue            # one supplied final newline (see above)
            for pth, src in zip(batch, srcs[lo:lo + bsize]):
                head = '=== {} ===\n'.format(pth) if len(batch) > 1 else ''
                want_parts.append(head + expected_listtokens(src, reflex.lex(src)))
            if rcode != 0 or got != ''.join(want_parts):
                # name the first file whose listing differs
                pos = 0
                bad = None
                for k, wp in enumerate(want_parts):
                    if got[pos:pos + len(wp)] != wp:
                        bad = k
                        break
                    pos += len(wp)
                k = bad if bad is not None else 0
                src = srcs[lo + k]
                wp = want_parts[k]
                gp = got[pos:pos + len(wp) + 40]
                j = next((x for x in range(min(len(wp), len(gp))) if wp[x] != gp[x]), min(len(wp), len(gp)))
                res.violation('C07|listtokens|%s|%s' % (kind, 'returncode' if rcode != 0 else 'listing'),
                              '`p8tool listtokens` on a %s cart holding %r: %s' % (
                                  ext, src, ('returned %r' % (rcode,)) if rcode != 0 else
                                  'prints ...%r, the token list is ...%r' % (gp[max(0, j - 20):j + 30], wp[max(0, j - 20):j + 30])),
                              {'src': src, 'via': kind + '-listtokens'})
    finally:
        import shutil
        shutil.rmtree(d, ignore_errors=True)


# ---------------------------------------------------------------- token counting (stats): content independence
COUNT_TEMPLATES = [b'x=%s\n', b'f(%s)\n', b'f %s\n', b't[%s]=1\n', b'x=%s..%s\n', b'x={%s,%s}\n', b'?%s\n',
                   b'if (a) x=%s\n', b'function f() return %s end\n', b'x=%s -- c\ny=2\n']


def count_values():
    vals = sorted(reflex.KEYWORDS) + [s_ for s_ in reflex.SYMBOLS] + [b'a', b'', b'1', b'1e5', b'0x1e', b' ', b'end ',
                                                                  b'-- c', b'//', b'--[[', b'x=1', b'\x80']
    return vals


def string_spellings(v):
    out = []
    if b'"' not in v and b'\\' not in v and b'\n' not in v:
        out.append(b'"' + v + b'"')
    if b"'" not in v and b'\\' not in v and b'\n' not in v:
        out.append(b"'" + v + b"'")
    if b']]' not in v and not v.endswith(b']'):
        out.append(b'[[' + v + b']]')
    if b']=]' not in v and not v.endswith(b']'):
        out.append(b'[=[' + v + b']=]')
    out.append(b'"' + b''.join(b'\\%03d' % c for c in v) + b'"')
    return out


def token_count(src):
    from pico8.lua import lua
    return lua.Lua.from_lines([src], version=core.lua_version(src)).get_token_count()


def check_counts(part, nparts, res):
    """PICO-8 counts a string literal as one token whatever it contains, a name as one token whatever its spelling,
    and does not count comments: the count of a program may not change when only the CONTENT of a string / name /
    comment changes (kind-aware counting). Also: `p8tool stats` reports the library's count."""
    n = 0
    for tpl in COUNT_TEMPLATES:
        k = tpl.count(b'%s')
        try:
            base = token_count(tpl % ((b'"s"',) * k))
        except Exception:
            continue
        for v in count_values():
            for sp in string_spellings(v):
                n += 1
                if n % nparts != part:
                    continue
                src = tpl % ((sp,) * k)
                res.evaluations += 1
                try:
                    shape = [(t.kind, None if t.kind == 'string' else t.text) for t in reflex.significant(reflex.lex(src))]
                    bshape = [(t.kind, None if t.kind == 'string' else t.text)
                              for t in reflex.significant(reflex.lex(tpl % ((b'"s"',) * k)))]
                except reflex.Reject:
                    continue
                if shape != bshape:
                    continue        # the spelling fused with its neighbours (e.g. 't[' + '[[..]]'): another program
                res.nontriv(('count', src))
                case = {'src': src, 'count': 'string', 'template': tpl}
                try:
                    c = token_count(src)
                except Exception as e:
                    res.count('count_program_not_parsed')
                    continue
                if c != base:
                    res.violation('C07|token-count|string-content',
                                  'get_token_count(%r) = %d, but the same program with the string "s" counts %d: a string '
                                  'literal is one token whatever it holds' % (src, c, base), case)
                else:
                    res.outcome(('count', base))
    # names: spellings containing keywords / digits / exponent look-alikes
    for tpl in (b'%s=1\n', b'x.%s=1\n', b'function %s() end\n', b'local %s\n', b'goto %s\n', b'x=%s+%s\n'):
        k = tpl.count(b'%s')
        try:
            base = token_count(tpl % ((b'n',) * k))
        except Exception:
            continue
        for nm in [kw + b'x' for kw in sorted(reflex.KEYWORDS)] + [b'e', b'e5', b'x1e5', b'_', b'endend', b'a\x80', b'\xff']:
            src = tpl % ((nm,) * k)
            res.evaluations += 1
            case = {'src': src, 'count': 'name', 'template': tpl}
            try:
                c = token_count(src)
            except Exception:
                continue
            if c != base:
                res.violation('C07|token-count|name-spelling', 'get_token_count(%r) = %d, with the name n it is %d' % (src, c, base), case)
    # comments and layout do not count
    for body in (b'x=1', b'f(a,b)', b'if a then b=1 end'):
        try:
            base = token_count(body + b'\n')
        except Exception:
            continue
        for com in [b'-- ' + v for v in count_values() if b'\n' not in v] + [b'--[[ end local ) ]]', b'// end', b'--[=[\nend\n]=]']:
            for src in (body + b' ' + com + b'\n', com + b'\n' + body + b'\n', body + b'\n' + com + b'\n\n  \n'):
                res.evaluations += 1
                case = {'src': src, 'count': 'comment'}
                try:
                    reflex.lex(src)
                    c = token_count(src)
                except Exception:
                    continue
                if c != base:
                    res.violation('C07|token-count|comment', 'get_token_count(%r) = %d, without the comment it is %d' % (src, c, base), case)


def check_stats_cli(res):
    """`p8tool stats` (plain and --csv) reports version, line, char and token counts of the library for real carts."""
    import io
    import os
    import shutil
    import tempfile
    from pico8 import tool, util
    from pico8.game import file as p8file
    d = tempfile.mkdtemp(prefix='c07stats_')
    srcs = [b'-- title\n-- by me\nx="end" y=":" f(".")\n', b'x=1\n', b'a=[[local]] b={1,2;3}\nfunction f() end\n',
            b'-- t\nx=1e5 y=0x1e\n?x\n', b'x=m..":"..s\n']
    old_stream, old_verb = util._write_stream, util._verbosity
    try:
        for i, src in enumerate(srcs):
            pth = os.path.join(d, 's%d.p8' % i)
            write_p8(pth, src)
            g = p8file.from_file(pth)
            want_tokens = g.lua.get_token_count()
            ref_sig = len(reflex.significant(reflex.lex(src)))
            for flags in ([], ['--csv']):
                buf = io.StringIO()
                util._write_stream = buf
                util.set_verbosity(util.VERBOSITY_NORMAL)
                import sys
                old_stdout = sys.stdout
                sys.stdout = buf
                try:
                    rcode = tool.main(['stats'] + flags + [pth])
                except BaseException as e:
                    rcode = e
                finally:
                    sys.stdout = old_stdout
                    util._write_stream = old_stream
                    util.set_verbosity(old_verb)
                res.evaluations += 1
                text = buf.getvalue()
                case = {'src': src, 'count': 'stats-cli'}
                if flags:
                    rows = [r for r in text.strip().splitlines()]
                    ok = len(rows) == 2 and rows[1].split(',')[5:6] == [str(want_tokens)]
                else:
                    ok = ('- tokens: %d\n' % want_tokens) in text
                if rcode != 0 or not ok:
                    res.violation('C07|stats-cli|%s' % ('csv' if flags else 'plain'),
                                  '`p8tool stats %s` on a cart holding %r prints %r; the library counts %d tokens' % (
                                      ' '.join(flags), src, text[-200:], want_tokens), case)
                if want_tokens > ref_sig * 2:
                    res.violation('C07|token-count|absurd', 'count %d for %d significant tokens' % (want_tokens, ref_sig), case)
    finally:
        shutil.rmtree(d, ignore_errors=True)


NUMBER_PARTS = 16


def long_token_forms(part, nparts):
    """One lexical item of 2^k - 6 .. 2^k + 6 bytes for 2^k in {256, 1024, 4096, 8192, 16384, 32768} (every length in the
    band): line comments, blank runs, names, numbers, long strings / comments with the closer straddling the mark, and
    quoted strings in which each kind of escape ends exactly at / straddles the mark - alone and followed by code."""
    out = []
    marks = [256, 1024, 4096, 8192, 16384, 32768]
    escs = [b'\\n', b'\\065', b'\\x41', b'\\\\', b'\\"', b'\\\n', b'\\\r\n', b'\\z \n ']
    k = 0
    for m in marks:
        for d in range(-6, 7):
            n = m + d
            k += 1
            if k % nparts != part:
                continue
            out.append(b'x=1 --' + b'c d ' * (n // 4) + b'e' * (n % 4) + b'\ny=2\n')
            out.append(b'x=1 //' + b'(' * n + b'\ny=2\n')
            out.append(b'x=1' + b' ' * n + b'y=2\n')
            out.append(b'x=1' + b' \t' * (n // 2) + b'\ny=2\n')
            out.append(b'n' * n + b'=1 y=2\n')
            if n < 2000:
                out.append(b'x=0.' + b'5' * n + b' y=2\n')
            out.append(b'x=[[' + b'a]' * (n // 2) + b']] y=2\n')
            out.append(b'x=[==[' + b'=' * (d % 2) + b'a' * n + b']==] y=2\n')
            out.append(b'--[[' + b'c\r\n' * (n // 3) + b']] y=2\n')
            out.append(b'--[=[' + b']' * n + b']=] y=2\n')
            for e in escs:
                # the escape ends exactly n bytes after the opening quote
                pad = n - len(e)
                if pad >= 0:
                    out.append(b's="' + b'a' * pad + e + b'b" y=2\n')
    return out


def shards(tier, seed):
    L = BOUNDS[tier]['char_len']
    total = count_strings(L, len(ALPHABET))
    n = 64 if tier == 'quick' else 512
    step = (total + n - 1) // n
    items = [('chars', lo, min(total, lo + step)) for lo in range(0, total, step)]
    nr = len(REPS)
    items += [('pairs', lo, min(nr, lo + 8)) for lo in range(0, nr, 8)]
    if tier == 'thorough':
        items += [('triples', i) for i in range(nr)]
    items += [('kw',), ('multi',), ('esc',)]
    items += [('numbers', tier, k) for k in range(NUMBER_PARTS)]
    items += [('cart', kind, tier, k) for kind in ('p8', 'png') for k in range(CART_PARTS)]
    items += [('count', k, 4) for k in range(4)]
    items += [('longtok', k, 8) for k in range(8)]
    return items


def run_shard(item):
    res = ShardResult()
    kind = item[0]
    if kind == 'chars':
        for idx in range(item[1], item[2]):
            compare(nth_string(idx, ALPHABET), res, 'chars')
        res.sample({'src': nth_string(item[2] - 1, ALPHABET)}, limit=1)
    elif kind == 'pairs':
        for a in REPS[item[1]:item[2]]:
            for b in REPS:
                compare(a + b, res, 'pairs')
                compare(a + b' ' + b, res, 'pairs')
                res.cover('token_class_pairs', (a, b))
        res.sample({'src': REPS[item[1]] + REPS[-9]}, limit=1)
    elif kind == 'triples':
        a = REPS[item[1]]
        for b in REPS:
            for c in REPS:
                compare(a + b + c, res, 'triples')
    elif kind == 'kw':
        for s in keyword_embeddings():
            compare(s, res, 'kw')
        res.sample({'src': keyword_embeddings()[3]})
    elif kind == 'multi':
        for s in multiline_forms():
            compare(s, res, 'multi')
        res.sample({'src': multiline_forms()[5]})
    elif kind == 'esc':
        for s in escapes_forms():
            compare(s, res, 'esc')
        res.sample({'src': escapes_forms()[40]})
    elif kind == 'longtok':
        forms = long_token_forms(item[1], item[2])
        for src in forms:
            compare(src, res, 'longtok')
        if item[1] == 0:
            res.sample({'family': 'longtok', 'form': 'a -- comment of 4090..4102 bytes followed by code', 'forms': len(forms)})
    elif kind == 'count':
        check_counts(item[1], item[2], res)
        if item[1] == 0:
            check_stats_cli(res)
            res.sample({'family': 'count', 'pair': [b'x="s"\n', b'x="end"\n'], 'rule': 'a string literal counts the same whatever it holds'})
    elif kind == 'cart':
        check_cart_paths(item[1], item[2], item[3], res)
        if item[3] == 0:
            res.sample({'family': 'cart-' + item[1], 'paths': ['file.from_file(...).lua.tokens', 'p8tool listtokens <files>']})
    elif kind == 'numbers':
        lits = number_literals(item[1])[item[2]::NUMBER_PARTS]
        for lit in lits:
            compare(lit, res, 'numbers')
            compare(b'x=' + lit + b'+a', res, 'numbers')
            res.count('number_literals')
        res.sample({'src': lits[len(lits) // 2]}, limit=1)
    return res


def replay(case):
    res = ShardResult()
    if case.get('via'):
        return replay_via(case)
    if case.get('count'):
        for part in range(4):
            check_counts(part, 4, res)
        check_stats_cli(res)
        return [(s_, v[0]) for s_, v in res.violations.items()]
    for fam in ('chars', 'pairs', 'triples', 'kw', 'multi', 'esc', 'numbers'):
        r = ShardResult()
        compare(case['src'], r, fam)
        res.merge(r)
    return [(s, v[0]) for s, v in res.violations.items()]


def replay_via(case):
    import io
    import os
    import shutil
    import tempfile
    from pico8 import tool, util
    from pico8.game import file as p8file
    res = ShardResult()
    src = case['src']
    kind = case['via'].split('-')[0]
    d = tempfile.mkdtemp(prefix='c07cart_')
    try:
        pth = os.path.join(d, 'c00000' + ('.p8' if kind == 'p8' else '.p8.png'))
        (write_p8 if kind == 'p8' else write_png)(pth, src)
        if case['via'].endswith('-file'):
            compare(src, res, 'cart', via=(case['via'], lambda s_: p8file.from_file(pth).lua.tokens))
        else:
            buf = io.StringIO()
            old_stream, old_verb = util._write_stream, util._verbosity
            util._write_stream = buf
            util.set_verbosity(util.VERBOSITY_NORMAL)
            try:
                rcode = tool.main(['listtokens', pth])
            except BaseException as e:
                rcode = e
            finally:
                util._write_stream = old_stream
                util.set_verbosity(old_verb)
            want = expected_listtokens(src, reflex.lex(src))
            if rcode != 0 or buf.getvalue() != want:
                res.violation('C07|listtokens|%s|%s' % (kind, 'returncode' if rcode != 0 else 'listing'),
                              '`p8tool listtokens` on a cart holding %r prints %r, the token list is %r' % (src, buf.getvalue()[:200], want[:200]), case)
    finally:
        shutil.rmtree(d, ignore_errors=True)
    return [(s_, v[0]) for s_, v in res.violations.items()]
