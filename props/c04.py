"""C04 — .p8.png write/read round trip preserves cart and label picture.

Carts (region covering family, versions, code-size families around the raw/compressed decision and the
0x3d00-byte capacity) x {destination absent, destination existing with arbitrary label pixels} through
file.to_file on real paths; the written bytes are judged by the independent PNG decoder / stego unpacker /
code-area decoder and by picotool's own reader; oversize code must be refused and leave the destination
untouched; .p8 -> .p8.png -> .p8 preserves code and regions.
"""
import os
import shutil
import tempfile

from lib import carts
from lib import refcodec as rc
from lib.core import ShardResult, REPO

LEVEL = 'exploration'
RULE = ('carts x destination states through file.to_file(.p8.png): region covering family (all sfx note words, every '
        'byte value per gfx column / gff / map offset, music values), versions 0-41 and 255, code families: every length '
        '0-40 of compressible and of incompressible text, texts whose raw length is 0x3d00-2..+2 and whose compressed '
        'stream length is 0x3cf8-2..+2 (quick: 3 sizes each, thorough: 5 each + 22 intermediate sizes), sources with '
        '_update60, CR and LF endings; destination absent / existing with all 256 values in every channel; '
        '.p8->.p8.png->.p8 conversion; non-trivial = cart with non-empty code or non-zero region; distinct = distinct '
        '(regions, version, code, destination state)')
ASSUMPTIONS = ['reference PNG decoder, stego unpacker and :c: decoder (lib/refcodec.py) are correct',
               'code sizes between 41 bytes and the capacity boundary are covered at a few dozen sizes, not all',
               'destination images are 160x205 RGBA8 (what PICO-8 and picotool write)']
BOUNDS = {'quick': {'region_carts': 32, 'capacity_sizes': 6, 'small_lengths': '0..40 x 2 kinds'},
          'thorough': {'region_carts': 256, 'capacity_sizes': 10, 'intermediate_sizes': 22}}

CODE_AREA = 0x3d00


def same_code(got, src, reads=1):
    """Equality up to the reader's normalisation: CR reads as a blank, and each read may supply one final newline.
    Losing characters - trailing blank lines included - is not covered by that."""
    got = got.replace(b'\r', b' ')
    src = src.replace(b'\r', b' ')
    return any(got == src + b'\n' * k for k in range(reads + 1))


def label_rows(k):
    """Carrier picture k. k = 0, 1: the plain pictures (their low bits happen to load as a cart); k >= 2: the same
    pictures holding, in their low bits, something that is NOT a loadable cart -- the destination is still a perfectly
    good 160x205 picture, and the one the user sees: 2, 3 a cart whose Lua has a syntax error (a work in progress saved
    by PICO-8), 4, 5 arbitrary low bits, 6, 7 a ':c:' code header followed by a broken stream."""
    from props.c16 import carrier_rows
    rows = [bytes(r) for r in carrier_rows(k % 2)]
    if k < 2:
        return rows
    mem = bytearray(0x8000)
    kind = (k - 2) // 2 % 3
    if kind == 0:
        code = b'function _init()\n if x then\n  y=1\n'
        mem[0x4300:0x4300 + len(code)] = code
    elif kind == 1:
        v = 12345 + k
        for i in range(0x8000):
            v = (v * 1103515245 + 12345) & 0x7fffffff
            mem[i] = (v >> 16) & 0xff
    else:
        code = b':c:\x00\x01\x00\x00\x00' + b'\x3c\xff\xff\x00\x01\x3d\xfe' * 40
        mem[0x4300:0x4300 + len(code)] = code
    mem.append(8)
    return rc.stego_pack(bytes(mem), 160, 205, rows)


def bundled_label_rows():
    path = os.path.join(REPO, 'pico8', 'game', 'empty_023.p8.png')
    w, h, planes, rows = rc.png_decode(open(path, 'rb').read())
    return rows


def write_and_check(fills, version, code, dest, res, tag, code_fits=True):
    """dest: None (absent) or int k (existing image carrier k)."""
    from pico8.game import file as p8file
    res.evaluations += 1
    case = {'tag': tag}
    try:
        g = carts.make_game(fills, version=version, code_lines=[code] if code else [])
    except Exception:
        res.count('skipped_unlexable')
        return
    src = b''.join(g.lua.to_lines())
    if any(fills.values()) or code:
        res.nontriv((tag, dest))
    d = tempfile.mkdtemp(prefix='c04_')
    try:
        path = os.path.join(d, 'out.p8.png')
        if dest is None:
            before = None
            label = bundled_label_rows()
        else:
            label = label_rows(dest)
            before = rc.png_encode_rgba(160, 205, label)
            open(path, 'wb').write(before)
        # how the caller names the label source: not at all, label_fname=None (a wrapper forwarding its own optional
        # argument) - both mean "the existing destination, else the bundled label" -, or an explicit other image
        how = ('absent', 'none', 'explicit')[(len(src) + (dest or 0) + version) % 3]
        kw = {}
        if how == 'none':
            kw = {'label_fname': None}
        elif how == 'explicit':
            other = os.path.join(d, 'label_src.png')
            label = label_rows((dest or 0) + 1)
            open(other, 'wb').write(rc.png_encode_rgba(160, 205, label))
            kw = {'label_fname': other}
        case['label_arg'] = how
        # what the tool logs may not change what it writes: verbosity rotates over the cases (messages go nowhere)
        from pico8 import util
        verb = (util.VERBOSITY_QUIET, util.VERBOSITY_DEBUG, util.VERBOSITY_NORMAL, util.VERBOSITY_QUIET)[(len(src) + version + (dest or 0) * 3) % 4]
        case['verbosity'] = verb
        old_verb = util._verbosity
        util.set_verbosity(verb)
        try:
            p8file.to_file(g, path, **kw)
            raised = None
        except Exception as e:
            raised = e
        finally:
            util.set_verbosity(old_verb)
        after = open(path, 'rb').read() if os.path.exists(path) else None
        tcls = tag[0]
        if code_fits is None:
            # either outcome is allowed: refused with the destination untouched, or written losslessly
            if raised is not None:
                if after != before:
                    res.violation('C04|oversize-damaged-destination|%s' % tcls,
                                  'refused cart but the destination changed', case)
                else:
                    res.outcome(('refused', dest is None))
                return
        elif not code_fits:
            if raised is None:
                res.violation('C04|oversize-accepted|%s' % tcls,
                              'code of %d bytes does not fit the %d-byte code area but the cart was written' % (
                                  len(src), CODE_AREA), case)
            elif after != before:
                res.violation('C04|oversize-damaged-destination|%s' % tcls,
                              'refused oversize cart but the destination changed', case)
            else:
                res.outcome(('refused', dest is None))
            return
        if raised is not None:
            res.violation('C04|write-raise|%s|%s' % (type(raised).__name__, tcls),
                          'writing %s raised %r' % (tag, raised), case)
            return
        # 1. valid PNG by the independent decoder
        try:
            w, h, planes, rows = rc.png_decode(after)
        except Exception as e:
            res.violation('C04|invalid-png|%s' % tcls, 'independent decoder rejects the file: %r' % e, case)
            return
        if (w, h, planes) != (160, 205, 4):
            res.violation('C04|png-shape', 'image is %dx%d with %d planes' % (w, h, planes), case)
            return
        # 2. upper six bits = label source
        for y in range(h):
            a = bytes(b & 0xfc for b in rows[y])
            b = bytes(b & 0xfc for b in label[y])
            if a != b:
                x = next(i for i in range(len(a)) if a[i] != b[i])
                res.violation('C04|label-pixels|%s%s' % ('existing' if dest is not None else 'bundled', '' if how == 'absent' else '|label_fname=' + how),
                              'pixel (%d,%d) channel %s: upper bits %#x, label source %#x' % (
                                  x // 4, y, 'RGBA'[x % 4], a[x], b[x]), case)
                break
        # 3. independent unpack
        mem = rc.stego_unpack(w, h, planes, rows)
        m = rc.split_memory(mem)
        for n, _ in rc.REGION_ORDER:
            want = bytes(fills[n]) if n in fills else carts.game_regions(g)[n]
            if m[n] != want:
                res.violation('C04|region|ref|%s' % n, 'region %s differs in the written image' % n, case)
        if m['version'] != (version & 0xff):
            res.violation('C04|version|ref', 'version byte %d, cart version %d' % (m['version'], version), case)
        try:
            text, mode = rc.code_area_decode(m['code_area'])
        except Exception as e:
            res.violation('C04|code|ref-undecodable|%s' % tcls, 'reference cannot decode the code area: %r' % e, case)
            text, mode = None, '?'
        if text is not None and text != src:
            res.violation('C04|code|ref|%s|%s' % (mode, tcls),
                          'code area (%s) holds %r..., cart code %r... (len %d vs %d)' % (
                              mode, text[:30], src[:30], len(text), len(src)), case)
        # 4. picotool reader
        try:
            g2 = p8file.from_file(path)
        except Exception as e:
            res.violation('C04|read-raise|%s|%s' % (type(e).__name__, tcls), 'reading back raised %r' % e, case)
            return
        got = carts.game_regions(g2)
        for n, _ in rc.REGION_ORDER:
            want = bytes(fills[n]) if n in fills else carts.game_regions(g)[n]
            if got[n] != want:
                res.violation('C04|region|reread|%s' % n, 'region %s differs after write+read' % n, case)
        if g2.version != (version & 0xff):
            res.violation('C04|version|reread', 'version %r after write+read (was %r)' % (g2.version, version), case)
        code2 = b''.join(g2.lua.to_lines())
        if not same_code(code2, src):
            res.violation('C04|code|reread|%s|%s|v%s' % (mode, tcls, 'ersion0' if version == 0 else 'N'),
                          'code after write+read %r..., was %r... (len %d vs %d, stored %s)' % (
                              code2[:40], src[:40], len(code2), len(src), mode), case)
        res.outcome((mode, dest is None, len(src) > 100))
        res.cover('storage_modes', mode)
    finally:
        shutil.rmtree(d, ignore_errors=True)


def convert_chain(fills, version, code, res, tag):
    """.p8 -> .p8.png -> .p8 through `p8tool writep8`-style conversion (file.from_file / file.to_file)."""
    from pico8.game import file as p8file
    res.evaluations += 1
    res.nontriv((tag, 'chain'))
    case = {'tag': tag}
    d = tempfile.mkdtemp(prefix='c04_')
    try:
        g = carts.make_game(fills, version=version, code_lines=[code] if code else [])
        a = os.path.join(d, 'a.p8')
        b = os.path.join(d, 'b.p8.png')
        c = os.path.join(d, 'c.p8')
        try:
            p8file.to_file(g, a)
            p8file.to_file(p8file.from_file(a), b)
            p8file.to_file(p8file.from_file(b), c)
            g3 = p8file.from_file(c)
        except Exception as e:
            res.violation('C04|chain|raise|%s' % type(e).__name__, '.p8->.p8.png->.p8 raised %r' % e, case)
            return
        got = carts.game_regions(g3)
        for n, _ in rc.REGION_ORDER:
            want = bytes(fills[n])
            if n == 'music':
                want = carts.mask_music(want)
            if got[n] != want:
                res.violation('C04|chain|region|%s' % n, 'region %s changed by .p8->.p8.png->.p8' % n, case)
        code3 = b''.join(g3.lua.to_lines())
        if not same_code(code3, code, reads=2):
            res.violation('C04|chain|code', 'code changed by conversion: %r -> %r' % (code[:40], code3[:40]), case)
        res.outcome(('chain',))
    finally:
        shutil.rmtree(d, ignore_errors=True)


# ---------------------------------------------------------------- code families
def lcg_text(n, alphabet, seed):
    x = seed * 7919 + 17
    out = bytearray()
    for _ in range(n):
        x = (x * 1103515245 + 12345) & 0x7fffffff
        out.append(alphabet[(x >> 16) % len(alphabet)])
    return bytes(out)


LOWER = b'abcdefghijklmnopqrstuvwxyz0123456789'
UPPER = b'ABCDEFGHIJKLMNOPQRSTUVWXYZ'


def comment_wrap(body):
    """Make arbitrary filler lexable: put it in comment lines of 60 chars."""
    out = []
    for i in range(0, len(body), 60):
        out.append(b'--' + body[i:i + 60] + b'\n')
    return b''.join(out)


def small_codes():
    out = []
    for n in range(0, 41):
        # compressible: repeated 'x=x ' statement text, exact length n, ends where it ends
        comp = (b'a=a a=a a=a a=a a=a a=a a=a a=a a=a a=a a=a ')[:n]
        if comp.rstrip().endswith(b'=') or comp.rstrip().endswith(b'a=a a') is None:
            pass
        out.append((('small-comp', n), b'--' + comp if n else b''))
        inc = lcg_text(n, UPPER, n)
        out.append((('small-inc', n), b'--' + inc if n else b''))
    # endings: 0..4 final newlines / blank lines with blanks, after code stored raw and after code stored compressed
    for k, tail in enumerate((b'', b'\n', b'\n\n', b'\n\n\n', b'\n\n\n\n', b'\n \n', b' \n\t\n', b'\n\n--\n\n')):
        out.append((('small-inc', 100 + k), b'x=1' + tail))
        out.append((('small-comp', 100 + k), b'a=a a=a a=a a=a a=a a=a a=a a=a a=a a=a a=a a=a a=a a=a' + tail))
        out.append((('small-inc', 200 + k), tail))
    return out


def raw_text_of_length(n, end=None):
    """Incompressible (non-table upper-case) comment text of exact length n; end = 'letter' / 'newline' forces the kind
    of the last byte (the reader supplies / normalises a final newline, so both endings are separate cases)."""
    body = bytearray()
    i = 0
    while len(body) < n:
        line = b'--' + lcg_text(61, UPPER, i) + b'\n'
        body += line
        i += 1
    body = bytes(body[:n])
    if body.endswith(b'-') and not body.endswith(b'--'):
        body = body[:-1] + b'Q'
    if end == 'letter' and n and body.endswith(b'\n'):
        body = body[:-1] + b'Q'
    if end == 'newline' and n >= 4 and not body.endswith(b'\n'):
        body = body[:-3] + (b'QQ\n' if body[-4:-3] != b'\n' else b'--\n')
    return body


def comp_text_with_stream_length(target):
    """Table-character text whose compressed stream is exactly `target` bytes (when achievable)."""
    from pico8.game import compress
    big = bytearray()
    i = 0
    while len(big) < target + target // 16 + 400:
        big += b'--' + lcg_text(58, LOWER, i) + b'\n'
        i += 1
    big = bytes(big)
    stream = bytes(compress.compress_code(big))
    # map output position -> stream position at item boundaries
    pos_out, pos_in = 0, 0
    best = None
    k = 0
    while k < len(stream):
        b = stream[k]
        if b == 0:
            k += 2
            pos_out += 1
        elif b < 0x3c:
            k += 1
            pos_out += 1
        else:
            ln = (stream[k + 1] >> 4) + 2
            k += 2
            pos_out += ln
        if k == target:
            best = pos_out
            break
        if k > target:
            break
    if best is None:
        return None
    t = big[:best]
    return t


def comp_text_with_stream_between(lo, hi):
    """First text (by construction order) whose compressed stream length lies in [lo, hi]."""
    for target in range(hi, lo - 1, -1):
        t = comp_text_with_stream_length(target)
        if t is not None:
            return t
    return None


def capacity_cases(tier):
    """(tag, builder) pairs; builders are run in the shard (they are expensive)."""
    deltas = (-1, 0, 1) if tier == 'quick' else (-2, -1, 0, 1, 2)
    out = []
    for d in deltas:
        out.append(('cap-raw', d))
        out.append(('cap-raw-letter', d))
        out.append(('cap-raw-newline', d))
        out.append(('cap-comp', d))
    if tier == 'thorough':
        for n in range(1000, 15000, 650):
            out.append(('mid', n))
    return out


# ---------------------------------------------------------------- driver
def region_cart(i, tier):
    mus = carts.music_regions('quick')
    return {
        'sfx': carts.sfx_region(i % 256),
        'gfx': carts.gfx_region(i % 2) if i % 5 else carts.pair_region(0x2000, 64),
        'map': carts.rot_region(4096, (i * 8) & 0xff) if i % 7 else carts.pair_region(4096, 64),
        'gff': carts.rot_region(256, (i * 8 + 1) & 0xff),
        'music': mus[i % len(mus)],
    }


VERSIONS = list(range(0, 42)) + [255]
LONG = {'quick': [32768, 65535, 65536, 66000], 'thorough': [16384, 32767, 32768, 49152, 65280, 65535, 65536, 65537, 65792, 66000, 131072, 131073]}
U60 = [b'function _update60()\n x=1\nend\n', b'-- _update60', b'_update60=1', b'x="_update60"\n' * 3,
       b'function _update60() end\nfunction _draw() cls() end\n' + b'x=x+1 y=y+1 z=z+1\n' * 20]


def u60x_codes():
    """Compressed sources that mention _update60 (the writer then compresses source + compatibility suffix while the
    header declares the source length only): every string of <= 3 pieces over {_update60, LF, 'if(', x, blank} after a
    compressible pad - the last block of the stream may start in the source and run on into the suffix - and programs
    that hold the suffix text themselves."""
    from props import c05
    out = []
    for idx in range(c05.count_strings(3, len(c05.MACRO))):
        t = c05.nth_string(idx, c05.MACRO)
        if b'_update60' in t:
            out.append(c05.PAD + t)
    shim = b'if(_update60)_update=function()_update60()_update60()end'
    for tail in (b't=0\n', b't=0', b'\n', b'', b'if (t) t=0\n'):
        out.append(b'function _update60()\n t+=1\nend\nt=0\n' + shim + b'\n' + tail)
        out.append(b'function _update60() end\nif x then y=1 end\nt=0\n' + tail)
    return out


def shards(tier, seed):
    n = BOUNDS[tier]['region_carts']
    items = [('regions', tier, lo, min(n, lo + 4)) for lo in range(0, n, 4)]
    items += [('versions', lo, min(len(VERSIONS), lo + 6)) for lo in range(0, len(VERSIONS), 6)]
    sc = small_codes()
    items += [('small', lo, min(len(sc), lo + 6)) for lo in range(0, len(sc), 6)]
    items += [('cap', tier, c) for c in capacity_cases(tier)]
    items += [('u60',), ('endings',), ('chain', tier), ('history',)] + [('u60x', k, 8) for k in range(8)]
    items += [('long', n) for n in LONG[tier]]
    items += [('programs', tier, k) for k in range(8)]
    items.sort(key=lambda it: 0 if it[0] in ('cap', 'long') else 1)
    return items


def run_shard(item):
    res = ShardResult()
    kind = item[0]
    if kind == 'regions':
        for i in range(item[2], item[3]):
            fills = region_cart(i, item[1])
            write_and_check(fills, 8 + i % 30, b'-- cart %d\nx=%d x=%d x=%d x=%d x=%d\n' % ((i,) * 6), i % 8 if i % 3 else None,
                            res, ('regions', i))
        if item[2] == 0:
            res.sample({'family': 'regions', 'cart': 0, 'dest': 'absent'})
    elif kind == 'versions':
        fills = carts.region_fills(1, 3)
        for v in VERSIONS[item[1]:item[2]]:
            # compressible code and short (raw) code for every version
            write_and_check(fills, v, b'print(%d) print(%d) print(%d) print(%d)\n' % ((v,) * 4), None, res, ('version-comp', v))
            write_and_check(fills, v, b'x=%d' % v, 1, res, ('version-raw', v))
        if item[1] == 0:
            res.sample({'family': 'versions', 'versions': VERSIONS[item[1]:item[2]]})
    elif kind == 'small':
        sc = small_codes()
        for j, (tag, code) in enumerate(sc[item[1]:item[2]]):
            for dest in (None, 0, 2 + (item[1] + j) % 6):
                write_and_check({}, 33, code, dest, res, tag)
        res.sample({'family': 'small', 'code': sc[item[1]][1]})
    elif kind == 'cap':
        what, d = item[2]
        fills = carts.region_fills(2, 1)
        if what.startswith('cap-raw'):
            code = raw_text_of_length(CODE_AREA + d, end=what[8:] or None)
            write_and_check(fills, 33, code, 0 if d % 2 else None, res, (what, d), code_fits=(d <= 0))
            res.sample({'family': what, 'code_len': len(code), 'fits': d <= 0, 'last_byte': code[-1:]})
        elif what == 'cap-comp':
            target = CODE_AREA - 8 + d
            code = comp_text_with_stream_length(target)
            if code is None:
                res.count('capacity_target_not_reachable')
                code = comp_text_with_stream_length(target - 1) if d <= 0 else comp_text_with_stream_length(target + 1)
                if code is None:
                    return res
            from pico8.game import compress
            slen = len(compress.compress_code(code))
            fits = slen + 8 <= CODE_AREA if slen < len(code) else len(code) <= CODE_AREA
            write_and_check(fills, 33, code, 1 if d % 2 else None, res, ('cap-comp', d), code_fits=fits)
            res.sample({'family': 'cap-comp', 'code_len': len(code), 'stream_len': slen, 'fits': fits})
        else:
            code = comment_wrap(lcg_text(d, LOWER + b'    ' + b'ee', d))
            write_and_check(fills, 33, code, None, res, ('mid', d))
    elif kind == 'long':
        # highly repetitive code around the 16-bit length field of the :c: header: either refused or lossless
        n = item[1]
        line = b'x=x+1 y=y+1 z=z+1 w=w+1 print(x+y+z+w)\n'
        code = (line * (n // len(line) + 1))[:n - 1] + b'\n'
        write_and_check(carts.region_fills(0, 1), 33, code, 1 if n % 2 else None, res, ('long', n), code_fits=None)
        res.sample({'family': 'long', 'code_len': len(code)})
    elif kind == 'u60':
        for i, code in enumerate(U60):
            for dest in (None, 1):
                write_and_check(carts.region_fills(0, 0), 33, code, dest, res, ('u60', i))
        res.sample({'family': '_update60', 'code': U60[0]})
    elif kind == 'u60x':
        codes = u60x_codes()
        for i, code in enumerate(codes):
            if i % item[2] == item[1]:
                write_and_check({}, 33, code, None if i % 2 else 1, res, ('u60x', i))
        res.sample({'family': 'u60x', 'code': codes[3]})
    elif kind == 'endings':
        for i, code in enumerate([b'x=1 x=1 x=1 x=1 x=1 x=1\r\ny=2 y=2 y=2 y=2 y=2\r\n', b'x=1\r\n', b'x=1\n\n\n',
                                  b'x=1 x=1 x=1 x=1 x=1 x=1 x=1 x=1\n\n', b'\n', b'x=1\rx=2 x=2 x=2 x=2 x=2 x=2']):
            write_and_check({}, 33, code, None, res, ('endings', i))
    elif kind == 'programs':
        from props import c03
        for j, code in enumerate(c03.packed_programs(item[1], item[2], 8)):
            write_and_check({}, 33, code, None if j % 2 else 1, res, ('programs', item[2], j))
    elif kind == 'history':
        from props import c03
        r = ShardResult()
        c03.path_history(r, '.p8.png')
        c03.edited_history(r, '.p8.png')
        for sig, v in r.violations.items():
            res.violation(sig.replace('C03|', 'C04|', 1), v[0], v[1])
        r.violations = {}
        res.merge(r)
    elif kind == 'chain':
        n = 3 if item[1] == 'quick' else 12
        for i in range(n):
            convert_chain(region_cart(i * 5, item[1]), 33, U60[i % len(U60)] if i % 2 else b'-- t\nx=%d\n' % i, res,
                          ('chain', i))
    return res


def replay(case):
    res = ShardResult()
    tag = tuple(case['tag'])
    kind = tag[0]
    if kind == 'regions':
        i = tag[1]
        write_and_check(region_cart(i, 'thorough'), 8 + i % 30, b'-- cart %d\nx=%d x=%d x=%d x=%d x=%d\n' % ((i,) * 6),
                        i % 2 if i % 3 else None, res, tag)
    elif kind in ('version-comp', 'version-raw'):
        v = tag[1]
        fills = carts.region_fills(1, 3)
        if kind == 'version-comp':
            write_and_check(fills, v, b'print(%d) print(%d) print(%d) print(%d)\n' % ((v,) * 4), None, res, tag)
        else:
            write_and_check(fills, v, b'x=%d' % v, 1, res, tag)
    elif kind in ('small-comp', 'small-inc'):
        code = dict(small_codes())[tag]
        for dest in (None, 0):
            write_and_check({}, 33, code, dest, res, tag)
    elif kind in ('cap-raw', 'cap-raw-letter', 'cap-raw-newline', 'cap-comp', 'mid'):
        res.merge(run_shard(('cap', 'thorough', tag)))
    elif kind == 'long':
        res.merge(run_shard(('long', tag[1])))
    elif kind == 'u60x':
        write_and_check({}, 33, u60x_codes()[tag[1]], None if tag[1] % 2 else 1, res, tag)
    elif kind == 'u60':
        for dest in (None, 1):
            write_and_check(carts.region_fills(0, 0), 33, U60[tag[1]], dest, res, tag)
    elif kind == 'endings':
        res.merge(run_shard(('endings',)))
    elif kind == 'programs':
        from props import c03
        code = c03.packed_programs('quick', tag[1], 8)[tag[2]]
        write_and_check({}, 33, code, None if tag[2] % 2 else 1, res, tag)
    elif kind == 'history':
        res.merge(run_shard(('history',)))
    elif kind == 'chain':
        res.merge(run_shard(('chain', 'thorough')))
    return [(s, v[0]) for s, v in res.violations.items()]
