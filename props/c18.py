"""C18 — raw cart-memory writes land at the addressed bytes and only there.

Explicit-state search on the real Game object beside a flat 0x4300-byte reference array:
operations = write_cart_data(data, start) for every (start, end) whose ends are within +-2 of a
region boundary (plus zero-length, whole-region and rejected out-of-range writes); sequences to
depth 2 (thorough: depth 3 on the +-1 set); after every transition the concatenated regions must
equal the model and every region must keep its size.
"""
from lib.core import ShardResult, h64

LEVEL = 'model_checking'
RULE = ('BFS over sequences of write_cart_data calls on a real Game; alphabet = all (start,end) pairs with both ends '
        'within +-2 of a region boundary {0,0x2000,0x3000,0x3100,0x3200,0x4300} incl. rejected ones; state = full '
        '0x4300-byte image; a case is non-trivial when the write is accepted, non-empty and touches or abuts a boundary')
ASSUMPTIONS = ['addresses farther than 2 bytes from every boundary behave like the interior points explored '
               '(the slicing arithmetic only compares with region bounds)',
               'data values are a position-dependent pattern that differs from all prior contents at every address']
BOUNDS = {'quick': {'depth': 2, 'delta': 2, 'depth2_delta': 1, 'initial_states': 2},
          'thorough': {'depth': 3, 'delta': 2, 'depth2_delta': 2, 'depth3_delta': 1, 'initial_states': 2}}

BOUNDARIES = [0, 0x2000, 0x3000, 0x3100, 0x3200, 0x4300]
REGIONS = [('gfx', 0, 0x2000), ('map', 0x2000, 0x3000), ('gff', 0x3000, 0x3100),
           ('music', 0x3100, 0x3200), ('sfx', 0x3200, 0x4300)]
TOTAL = 0x4300


def points(delta):
    ps = set()
    for b in BOUNDARIES:
        for d in range(-delta, delta + 1):
            if 0 <= b + d <= TOTAL + delta:
                ps.add(b + d)
    return sorted(ps)


def writes(delta):
    ps = points(delta)
    return [(s, e) for s in ps for e in ps if s <= e]


def rel(addr):
    b = min(BOUNDARIES, key=lambda x: abs(x - addr))
    d = addr - b
    return '%#x%+d' % (b, d) if d else '%#x' % b


def fill(seed, k):
    """Position-dependent byte pattern number k (k=0: initial content)."""
    return bytes(((a * 31 + (a >> 8) * 7 + seed * 13 + 85 * k + 1) & 0xff) for a in range(TOTAL + 8))


def make_game(mem):
    from pico8.game.game import Game
    g = Game.make_empty_game()
    for name, lo, hi in REGIONS:
        getattr(g, name)._data = bytearray(mem[lo:hi])
    return g


def image(g):
    return b''.join(bytes(getattr(g, name)._data) for name, _, _ in REGIONS)


def apply_and_check(g, model, s, e, pattern, res, hist):
    """Apply one write to the real game and the model; returns (ok, new_model)."""
    data = pattern[s:e]
    res.transitions += 1
    expect_reject = e > TOTAL
    before = image(g)
    sizes_before = [len(getattr(g, n)._data) for n, _, _ in REGIONS]
    case = {'hist': hist + [[s, e]]}
    sig_tail = 'start=%s|end=%s' % (rel(s), rel(e))
    try:
        g.write_cart_data(data, s)
        raised = None
    except Exception as ex:
        raised = ex
    after = image(g)
    sizes = [len(getattr(g, n)._data) for n, _, _ in REGIONS]
    if expect_reject:
        if raised is None:
            res.violation('C18|not-rejected|' + sig_tail, 'write [%#x,%#x) passes 0x4300 but was accepted' % (s, e), case)
            return False, model
        if after != before or sizes != sizes_before:
            res.violation('C18|rejected-but-modified|' + sig_tail,
                          'write [%#x,%#x) was rejected but memory changed' % (s, e), case)
            return False, model
        res.outcome(('rej',))
        return True, model
    if raised is not None:
        res.violation('C18|raise|%s|%s' % (type(raised).__name__, sig_tail),
                      'in-range write [%#x,%#x) raised %r' % (s, e, raised), case)
        return False, model
    new_model = model[:s] + data + model[e:]
    if sizes != [hi - lo for _, lo, hi in REGIONS]:
        names = [n for (n, lo, hi), z in zip(REGIONS, sizes) if z != hi - lo]
        res.violation('C18|resize|' + sig_tail,
                      'write [%#x,%#x): region size changed: %s' % (
                          s, e, ', '.join('%s %d->%d' % (n, hi - lo, z) for (n, lo, hi), z in zip(REGIONS, sizes)
                                          if z != hi - lo)), case)
        return False, model
    if after != new_model:
        bad = next(i for i in range(TOTAL) if after[i] != new_model[i])
        kind = 'missed' if s <= bad < e else 'stray'
        res.violation('C18|%s|%s' % (kind, sig_tail),
                      'write [%#x,%#x): byte at %#x is %#x, model says %#x' % (s, e, bad, after[bad], new_model[bad]),
                      case)
        return False, model
    if e > s and any(s <= b <= e for b in BOUNDARIES):
        res.nontriv((s, e, len(hist)))
    res.outcome(('ok', s in BOUNDARIES, e in BOUNDARIES, e - s > 0))
    return True, new_model


def initial(seed, which):
    if which == 0:
        return fill(seed, 0)[:TOTAL]
    return bytes(TOTAL)


def explore(first, init_which, seed, depth, deltas, res):
    """All sequences starting with write `first`, up to `depth`, later writes from writes(deltas[level])."""
    pats = [fill(seed, k + 1) for k in range(depth)]
    seen = set()

    def rec(model, hist, level):
        menu = [first] if level == 0 else WRITES[deltas[level]]
        for (s, e) in menu:
            g = make_game(model)
            ok, nm = apply_and_check(g, model, s, e, pats[level], res, hist)
            res.evaluations += 1
            if not ok:
                continue
            k = h64(nm)
            if k not in seen:
                seen.add(k)
                res.states += 1
            if level + 1 < depth and e <= TOTAL:
                rec(nm, hist + [[s, e]], level + 1)
    rec(initial(seed, init_which), [], 0)


WRITES = {}


def _prep():
    for d in (1, 2):
        ws = writes(d)
        # plus whole-region and whole-memory writes
        for _, lo, hi in REGIONS:
            if (lo, hi) not in ws:
                ws.append((lo, hi))
        for extra in [(0, TOTAL), (0, TOTAL + 1), (1, TOTAL), (0x1fff, 0x3201)]:
            if extra not in ws:
                ws.append(extra)
        WRITES[d] = ws


_prep()


def plan(tier):
    if tier == 'quick':
        return 2, {0: 2, 1: 1}
    return 3, {0: 2, 1: 2, 2: 1}


def replace_history(seed, res):
    """Histories on ONE game object: write, replace a section object (as build does), write again, ..."""
    from pico8.gfx.gfx import Gfx
    from pico8.map.map import Map
    from pico8.gff.gff import Gff
    from pico8.sfx.sfx import Sfx
    from pico8.music.music import Music
    classes = {'gfx': Gfx, 'map': Map, 'gff': Gff, 'music': Music, 'sfx': Sfx}
    writes = [(0x1ffd, 0x2003), (0x2ffe, 0x3102), (0x31ff, 0x3201), (0, 0x4300), (0x42fe, 0x4300), (0x3000, 0x3100)]
    for which in list(classes) + ['all']:
        model = initial(seed, 0)
        g = make_game(model)
        hist = []
        k = 0
        for rnd in range(3):
            for (s, e) in writes:
                k += 1
                ok, model = apply_and_check(g, model, s, e, fill(seed, k % 5 + 1), res, hist)
                res.evaluations += 1
                hist = hist + [[s, e]]
                if not ok:
                    # re-tag the violation as history-dependent
                    for sig in list(res.violations):
                        if not sig.startswith('C18|after-section-replaced'):
                            v = res.violations.pop(sig)
                            res.violations['C18|after-section-replaced|%s|%s' % (which, sig.split('|', 1)[1])] = (
                                v[0] + ' [after replacing section object(s) %s on the same game]' % which,
                                {'replace': which, 'hist': hist}, v[2])
                    return
            # replace section object(s) with fresh ones holding the same bytes
            for name, lo, hi in REGIONS:
                if which in (name, 'all'):
                    cls = classes[name]
                    if name == 'map':
                        setattr(g, name, cls.from_bytes(bytearray(model[lo:hi]), version=33, gfx=g.gfx))
                    else:
                        setattr(g, name, cls.from_bytes(bytearray(model[lo:hi]), version=33))
            if which in ('gfx', 'all'):
                g.map._gfx = g.gfx
            res.nontriv(('replace', which, rnd))
    res.outcome(('replace-history',))


def _section_classes():
    from pico8.gfx.gfx import Gfx
    from pico8.map.map import Map
    from pico8.gff.gff import Gff
    from pico8.sfx.sfx import Sfx
    from pico8.music.music import Music
    return {'gfx': Gfx, 'map': Map, 'gff': Gff, 'music': Music, 'sfx': Sfx}


def _construct(cls, name, buf, how, gfx=None):
    if how == 'from_bytes':
        return cls.from_bytes(buf, version=33, gfx=gfx) if name == 'map' else cls.from_bytes(buf, version=33)
    return cls(data=buf, version=33, gfx=gfx) if name == 'map' else cls(data=buf, version=33)


ALIAS_WRITES = [(0x1ffd, 0x2003), (0x30fe, 0x3102), (0x3000, 0x3100), (0x3100, 0x3200), (0x2ffe, 0x3001), (0x31ff, 0x3201),
                (0x42fe, 0x4300), (0, 2), (0, 0x4300)]


def alias_history(seed, res):
    """'Only there' also means: not in another cart and not in the buffers a caller used to build the sections.
    Carts whose sections were installed through the public constructors from bytearrays that something else still
    refers to (the caller's buffer, another region of the same cart, another cart, another cart's to_bytes())."""
    from pico8.game.game import Game
    classes = _section_classes()
    for how in ('from_bytes', 'init'):
        for mode in ('shared-buffers', 'copied-between-carts'):
            base = bytearray(initial(seed, 0))
            base[0x3100:0x3200] = base[0x3000:0x3100]        # gff and music start out equal: one buffer can serve both
            base = bytes(base)
            bufs = {}
            a, b = Game.make_empty_game(), Game.make_empty_game()
            if mode == 'shared-buffers':
                for name, lo, hi in REGIONS:
                    bufs[name] = bufs['gff'] if name == 'music' else bytearray(base[lo:hi])
                for g in (a, b):
                    g.gfx = _construct(classes['gfx'], 'gfx', bufs['gfx'], how)
                    for name in ('map', 'gff', 'music', 'sfx'):
                        setattr(g, name, _construct(classes[name], name, bufs[name], how, gfx=g.gfx))
            else:
                a = make_game(base)
                b.gfx = _construct(classes['gfx'], 'gfx', a.gfx.to_bytes(), how)
                for name in ('map', 'gff', 'music', 'sfx'):
                    setattr(b, name, _construct(classes[name], name, getattr(a, name).to_bytes(), how, gfx=b.gfx))
            models = {'a': base, 'b': base}
            games = {'a': a, 'b': b}
            hist = []
            for k, (s, e) in enumerate(ALIAS_WRITES):
                tgt = 'a' if k % 2 == 0 else 'b'
                other = 'b' if tgt == 'a' else 'a'
                res.evaluations += 1
                nviol = len(res.violations)
                ok, models[tgt] = apply_and_check(games[tgt], models[tgt], s, e, fill(seed, k % 5 + 1), res, hist)
                hist = hist + [[s, e]]
                case = {'alias': [how, mode], 'hist': hist}
                if not ok:
                    for sig in list(res.violations):
                        if not sig.startswith('C18|alias'):
                            v = res.violations.pop(sig)
                            res.violations['C18|alias|%s|%s|%s' % (how, mode, sig.split('|', 1)[1])] = (
                                v[0] + ' [cart built with %s, %s]' % (how, mode), case, v[2])
                    break
                if image(games[other]) != models[other]:
                    bad = next(i for i in range(TOTAL) if image(games[other])[i] != models[other][i])
                    res.violation('C18|alias|other-cart-changed|%s|%s' % (how, mode),
                                  'write [%#x,%#x) into one cart changed byte %#x of ANOTHER cart (sections built with %s, %s)' % (
                                      s, e, bad, how, mode), case)
                    break
                stale = [n for n, (_, lo, hi) in zip([r[0] for r in REGIONS], REGIONS)
                         if n in bufs and bytes(bufs[n]) != base[lo:hi]]
                if stale:
                    res.violation('C18|alias|caller-buffer-changed|%s|%s' % (how, mode),
                                  'write [%#x,%#x) changed the caller\'s own bytearray used to build section %s' % (
                                      s, e, stale[0]), case)
                    break
                res.nontriv(('alias', how, mode, k))
            else:
                res.outcome(('alias', how, mode))


def short_cart_text(rows, blank=()):
    """A .p8 file whose data sections have only the first `rows[name]` rows (None = section left out), as PICO-8
    writes carts whose trailing rows are empty."""
    from lib import refcodec as rc
    mem = initial(0, 0)
    out = [rc.P8_HEADER, b'version 33\n', b'__lua__\n', b'x=1\n']
    enc = {'gfx': lambda b: rc.gfx_rows(b), 'gff': lambda b: rc.hex_rows(b, 128), 'map': lambda b: rc.hex_rows(b, 128),
           'sfx': lambda b: rc.sfx_rows(b), 'music': lambda b: rc.music_rows(b)}
    for name, lo, hi in REGIONS:
        if rows.get(name) is None:
            continue
        data = bytes(mem[lo:hi])
        if name == 'music':
            data = bytes((b & 0x7f) if i % 4 == 3 else b for i, b in enumerate(data))
        out.append(b'__' + name.encode() + b'__\n' + b''.join(r.encode() + b'\n' for r in enc[name](data)[:rows[name]]))
        if name in blank:
            out.append(b'\n')      # PICO-8 (and picotool's writer) put a blank line at the end of some sections
    return b''.join(out)


FULL_ROWS = {'gfx': 128, 'map': 32, 'gff': 2, 'music': 64, 'sfx': 64}


def loaded_history(seed, res):
    """Carts as the .p8 LOADER hands them out, including files whose sections have fewer rows than the region (or
    are left out): the memory map is the same 0x4300 bytes, so every boundary write must land where it is addressed."""
    import io
    from pico8.game.formatter.p8 import P8Formatter
    variants = [('full', dict(FULL_ROWS), ())]
    for name in FULL_ROWS:
        for r in (None, 0, 1, FULL_ROWS[name] - 1):
            v = dict(FULL_ROWS)
            v[name] = r
            variants.append(('%s-rows-%s' % (name, r), v, ()))
            if r is not None:
                # the same section ending in a blank line (as the files PICO-8 and picotool write do)
                variants.append(('%s-rows-%s-blank' % (name, r), v, (name,)))
        variants.append(('%s-full-blank' % name, dict(FULL_ROWS), (name,)))
    variants.append(('all-short', {'gfx': 3, 'map': 2, 'gff': 1, 'music': 1, 'sfx': 2}, ()))
    variants.append(('all-short-blank', {'gfx': 3, 'map': 2, 'gff': 1, 'music': 1, 'sfx': 2}, tuple(FULL_ROWS)))
    variants.append(('only-lua', {}, ()))
    for tag, rows, blank in variants:
        res.evaluations += 1
        case = {'loaded': tag}
        try:
            g = P8Formatter.from_file(io.BytesIO(short_cart_text(rows, blank)), filename='x.p8')
        except Exception as e:
            res.violation('C18|loaded|load-raise|%s' % type(e).__name__, 'loading %s raised %r' % (tag, e), case)
            continue
        sizes = [len(getattr(g, n)._data) for n, _, _ in REGIONS]
        if sizes != [hi - lo for _, lo, hi in REGIONS]:
            # a region shorter than its nominal size: address a byte near its nominal end and see where the write lands
            n, lo, hi = next(r for r, z in zip(REGIONS, sizes) if z != r[2] - r[1])
            data = b'\xa5\x5a'
            try:
                g.write_cart_data(data, hi - 4)
                raised = None
            except Exception as ex:
                raised = ex
            reg = getattr(g, n)._data
            if raised is not None or len(reg) != hi - lo or bytes(reg[hi - 4 - lo:hi - 2 - lo]) != data:
                res.violation('C18|loaded|write-misplaced|%s' % n,
                              'cart loaded from a .p8 file (%s): region %s has %d bytes after loading; write_cart_data(2 bytes, '
                              '%#x) %s' % (tag, n, dict(zip([r[0] for r in REGIONS], sizes))[n], hi - 4,
                                          ('raised %r' % raised) if raised is not None else
                                          'left the region with %d bytes and %r at the addressed offset (region size must stay %d, '
                                          'the bytes must be at offset %#x)' % (len(reg), bytes(reg[hi - 4 - lo:hi - 2 - lo]), hi - lo, hi - 4 - lo)),
                              case)
            continue
        model = image(g)
        hist = []
        for k, (s, e) in enumerate(ALIAS_WRITES):
            res.evaluations += 1
            ok, model = apply_and_check(g, model, s, e, fill(seed, k % 5 + 1), res, hist)
            hist = hist + [[s, e]]
            if not ok:
                for sig in list(res.violations):
                    if not sig.startswith('C18|loaded') and not sig.startswith('C18|alias') and not sig.startswith('C18|after'):
                        v = res.violations.pop(sig)
                        res.violations['C18|loaded|%s' % sig.split('|', 1)[1]] = (
                            v[0] + ' [cart loaded from a .p8 file: %s]' % tag, {'loaded': tag, 'hist': hist}, v[2])
                break
            res.nontriv(('loaded', tag, k))
        else:
            res.outcome(('loaded', tag == 'full'))


def twins_history(seed, res):
    """Two carts loaded from the same file (sparse .p8 files of several shapes, a full .p8, a .p8.png) in one process:
    boundary writes into one of them must leave the other one, and a cart loaded afterwards, with the file's bytes."""
    import io
    from pico8.game.formatter.p8 import P8Formatter
    from pico8.game.formatter.p8png import P8PNGFormatter
    from lib import refcodec as rc
    shapes = [('only-lua', {}, ()), ('only-gfx', {'gfx': 128}, ('gfx',)), ('no-map', {'gfx': 128, 'gff': 2, 'music': 64, 'sfx': 64}, ()),
              ('short-all', {'gfx': 3, 'map': 2, 'gff': 1, 'music': 1, 'sfx': 2}, ()), ('full', dict(FULL_ROWS), ()), ('png', None, ())]
    for tag, rows, blank in shapes:
        if tag == 'png':
            mem = bytearray(0x8001)
            mem[:TOTAL] = initial(seed, 0)
            mem[0x4300:0x4303] = b'x=1'
            mem[0x8000] = 33
            data = rc.png_encode_rgba(160, 205, rc.stego_pack(bytes(mem), 160, 205, [bytes(160 * 4)] * 205))

            def load():
                return P8PNGFormatter.from_file(io.BytesIO(data), filename='x.p8.png')
        else:
            text = short_cart_text(rows, blank)

            def load():
                return P8Formatter.from_file(io.BytesIO(text), filename='x.p8')
        case = {'twins': tag}
        try:
            a, b = load(), load()
        except Exception as e:
            res.violation('C18|twins|load-raise|%s' % type(e).__name__, 'loading %s raised %r' % (tag, e), case)
            continue
        file_image = image(b)
        model = image(a)
        hist = []
        for k, (s, e) in enumerate(ALIAS_WRITES):
            res.evaluations += 1
            ok, model = apply_and_check(a, model, s, e, fill(seed, k % 5 + 1), res, hist)
            hist = hist + [[s, e]]
            if not ok:
                for sig in list(res.violations):
                    if not sig.startswith(('C18|twins', 'C18|loaded', 'C18|alias', 'C18|after')):
                        v = res.violations.pop(sig)
                        res.violations['C18|twins|%s' % sig.split('|', 1)[1]] = (v[0] + ' [twin carts loaded from %s]' % tag,
                                                                             {'twins': tag, 'hist': hist}, v[2])
                break
            if image(b) != file_image:
                bad = next(i for i in range(TOTAL) if image(b)[i] != file_image[i])
                res.violation('C18|twins|other-cart-changed|%s' % tag,
                              'write [%#x,%#x) into a cart loaded from a file (%s) changed byte %#x of ANOTHER cart loaded from the '
                              'same file' % (s, e, tag, bad), {'twins': tag, 'hist': hist})
                break
            res.nontriv(('twins', tag, k))
        else:
            try:
                c = image(load())
            except Exception as e:
                c = None
            if c != file_image:
                res.violation('C18|twins|later-load-changed|%s' % tag,
                              'after writes into a loaded cart, loading the same file (%s) again gives other contents' % tag, case)
            else:
                res.outcome(('twins', tag))


def oddsize_history(seed, res):
    """Carts picotool accepts although a region is LARGER than its slot in the memory map (a .p8 with extra rows, a
    section built from a longer buffer): the memory map is fixed, so a write still changes exactly the addressed bytes
    of each region (offset = address - region start) and nothing else, including the surplus tail."""
    import io
    from pico8.game.formatter.p8 import P8Formatter
    from pico8.game.game import Game
    from lib import refcodec as rc
    mem = initial(seed, 0)
    enc = {'gfx': lambda b: rc.gfx_rows(b), 'gff': lambda b: rc.hex_rows(b, 128), 'map': lambda b: rc.hex_rows(b, 128),
           'sfx': lambda b: rc.sfx_rows(b), 'music': lambda b: rc.music_rows(b)}
    cases = []
    for big in ('gfx', 'map', 'gff', 'music', 'sfx'):
        out = [rc.P8_HEADER, b'version 33\n', b'__lua__\n', b'x=1\n']
        for name, lo, hi in REGIONS:
            data = bytes(mem[lo:hi])
            if name == 'music':
                data = bytes((b & 0x7f) if i % 4 == 3 else b for i, b in enumerate(data))
            rows = enc[name](data)
            if name == big:
                rows = rows + rows[:2]          # two rows more than the region holds
            out.append(b'__' + name.encode() + b'__\n' + b''.join(r.encode() + b'\n' for r in rows))
        cases.append(('p8-extra-rows-' + big, ('p8', b''.join(out))))
        cases.append(('from_bytes-longer-' + big, ('bytes', big)))
    classes = _section_classes()
    for tag, (how, payload) in cases:
        case = {'oddsize': tag}
        try:
            if how == 'p8':
                g = P8Formatter.from_file(io.BytesIO(payload), filename='x.p8')
            else:
                g = make_game(mem)
                lo, hi = next((lo, hi) for n, lo, hi in REGIONS if n == payload)
                buf = bytearray(mem[lo:hi]) + bytearray(b'\xEE' * 70)
                sec = _construct(classes[payload], payload, buf, 'from_bytes', gfx=g.gfx)
                setattr(g, payload, sec)
                if payload == 'gfx':
                    g.map._gfx = sec
        except Exception:
            res.count('oddsize_cart_refused')       # refusing such a cart is fine
            continue
        sizes0 = {n: len(getattr(g, n)._data) for n, _, _ in REGIONS}
        if all(sizes0[n] == hi - lo for n, lo, hi in REGIONS):
            res.count('oddsize_cart_normalised')    # so is cutting it to size while loading
            continue
        for k, (s_, e_) in enumerate(ALIAS_WRITES + [(0x2000, 0x2008), (0x3000, 0x3100), (0x3200, 0x3210)]):
            res.evaluations += 1
            before = {n: bytes(getattr(g, n)._data) for n, _, _ in REGIONS}
            data = bytes(fill(seed, k % 5 + 1)[:e_ - s_])
            data = (data * ((e_ - s_) // max(1, len(data)) + 1))[:e_ - s_]
            try:
                g.write_cart_data(data, s_)
            except Exception as ex:
                res.violation('C18|oddsize|raise|%s|%s' % (type(ex).__name__, tag), 'write [%#x,%#x) on %s raised %r' % (s_, e_, tag, ex), case)
                break
            bad = None
            for n, lo, hi in REGIONS:
                want = bytearray(before[n])
                a, b = max(s_, lo), min(e_, hi)
                if a < b:
                    want[a - lo:b - lo] = data[a - s_:b - s_]
                if bytes(getattr(g, n)._data) != bytes(want):
                    bad = n
                    break
            if bad:
                res.violation('C18|oddsize|misplaced|%s' % tag,
                              'cart with an oversize region (%s): write [%#x,%#x) did not land at address - region start in region %s '
                              '(or touched other bytes)' % (tag, s_, e_, bad), {'oddsize': tag, 'hist': [[s_, e_]]})
                break
            res.nontriv(('oddsize', tag, k))
        else:
            res.outcome(('oddsize', tag))


SWEEP_PARTS = 8


def address_sweep(seed, part, res):
    """One cart, a chain of writes that visits EVERY address: a 1-byte write at each address of this part's stripe (the
    written byte differs from what is there), a 5-byte write at every 3rd address, and a 600-byte write at every 257th -
    interior addresses are not represented by the boundary neighbourhoods alone."""
    mem = initial(seed, 0)
    g = make_game(mem)
    model = bytes(mem)
    n = 0
    for a in range(part, TOTAL, SWEEP_PARTS):
        for ln in ((1,) + ((5,) if a % 3 == 0 else ()) + ((600,) if a % 257 == 0 else ())):
            if a + ln > TOTAL:
                continue
            res.evaluations += 1
            pat = bytes((model[i] ^ 0x5a ^ (n & 0xff) or 1) & 0xff if a <= i < a + ln else 0 for i in range(a, a + ln))
            pattern = bytes(a) + pat          # apply_and_check takes data = pattern[s:e]
            ok, model = apply_and_check(g, model, a, a + ln, pattern, res, [])
            n += 1
            if not ok:
                for sig in list(res.violations):
                    if not sig.startswith(('C18|sweep', 'C18|twins', 'C18|loaded', 'C18|alias', 'C18|after', 'C18|oddsize')):
                        v = res.violations.pop(sig)
                        res.violations['C18|sweep|%s|region=%s' % (sig.split('|')[1], region_of(a))] = (
                            v[0] + ' [address sweep, write of %d byte(s) at %#x]' % (ln, a), {'sweep': part, 'addr': a, 'len': ln}, v[2])
                return
    res.nontriv(('sweep', part))
    res.count('sweep_writes', n)
    res.outcome(('sweep',))


def live_source_history(seed, res):
    """The data argument IS a region's storage as the public accessor hands it out (g.sfx.to_bytes(), unsliced - also as
    memoryview, and a caller's own bytearray): copying one region over another address, over itself, into another cart.
    Every ordered pair (source region, destination address at each boundary -2..+2 that keeps the write inside the map);
    after each write both carts equal the flat model - the source region and the caller's buffer included."""
    pat = fill(seed, 0)
    for how in ('live', 'memoryview', 'own-bytearray'):
        for other_cart in (False, True):
            for sname, slo, shi in REGIONS:
                n = shi - slo
                for b in BOUNDARIES:
                    for d in (-2, 0, 1):
                        dst = b + d
                        if dst < 0 or dst + n > TOTAL:
                            continue
                        if not other_cart and how != 'own-bytearray' and dst != slo and dst < shi and slo < dst + n:
                            # (the write would read its own, partly overwritten, source: whether data is a value or a
                            # view at that moment is the caller's business, the statement speaks of data as a value)
                            continue
                        g = make_game(pat)
                        src_g = make_game(fill(seed, 3)) if other_cart else g
                        src_model = fill(seed, 3)[:TOTAL] if other_cart else pat[:TOTAL]
                        live = getattr(src_g, sname).to_bytes()
                        want_data = bytes(live)
                        if how == 'memoryview':
                            data = memoryview(live)
                        elif how == 'own-bytearray':
                            data = bytearray(want_data)
                        else:
                            data = live
                        res.evaluations += 1
                        res.transitions += 1
                        res.nontriv(('live', how, other_cart, sname, dst))
                        case = {'live_source': True, 'seed': seed}
                        sig = 'C18|live-source|%s|%s|src=%s|dst=%s' % (how, 'other-cart' if other_cart else 'same-cart', sname, rel(dst))
                        try:
                            g.write_cart_data(data, dst)
                        except Exception as e:
                            res.violation(sig + '|raise|' + type(e).__name__, 'write_cart_data(%s.to_bytes() as %s, %#x) raised %r' % (sname, how, dst, e), case)
                            continue
                        model = bytearray(pat[:TOTAL])
                        model[dst:dst + n] = want_data
                        if image(g) != bytes(model):
                            sizes = [len(getattr(g, nm)._data) for nm, _, _ in REGIONS]
                            res.violation(sig + '|destination-cart', 'after write_cart_data(%s.to_bytes() as %s, %#x) the cart differs from the model '
                                          '(region sizes %r)' % (sname, how, dst, sizes), case)
                            continue
                        if other_cart and image(src_g) != bytes(src_model):
                            sizes = [len(getattr(src_g, nm)._data) for nm, _, _ in REGIONS]
                            res.violation(sig + '|source-cart', 'copying %s of another cart to %#x changed THAT cart (region sizes %r)' % (sname, dst, sizes), case)
                            continue
                        if how == 'own-bytearray' and bytes(data) != want_data:
                            res.violation(sig + '|caller-buffer', 'write_cart_data changed the caller\'s bytearray (%d -> %d bytes)' % (n, len(data)), case)
                            continue
                        res.outcome(('live', how, other_cart))
    res.states += 1


def interleaved_history(seed, res):
    """Writes interleaved with edits made in other ways (the sections' own setters, a poke into the storage the public
    accessor hands out): a write changes exactly its range of the cart AS IT IS NOW - nothing an earlier write put
    somewhere comes back. All ordered pairs of 12 boundary writes around one edit of each kind, on one Game and on two."""
    pat0 = fill(seed, 0)
    wr = [(0x1ffe, 0x2002), (0x2ffe, 0x3002), (0x30ff, 0x3101), (0x31fe, 0x3202), (0x0, 0x1), (0x42ff, 0x4300),
          (0x2000, 0x3000), (0x3000, 0x3100), (0x10, 0x20), (0x3100, 0x3200), (0x2ff0, 0x3120), (0x0, 0x4300)]

    def edits(g, model, which):
        if which == 'map.set_cell':
            g.map.set_cell(127, 31, 0x77)
            model[0x2fff] = 0x77
            g.map.set_cell(0, 0, 0x66)
            model[0x2000] = 0x66
        elif which == 'gff.poke':
            g.gff.to_bytes()[0] = 0x55
            model[0x3000] = 0x55
            g.gff.to_bytes()[255] = 0x54
            model[0x30ff] = 0x54
        elif which == 'music.poke':
            g.music.to_bytes()[0] = 0x33
            model[0x3100] = 0x33
            g.music.to_bytes()[255] = 0x32
            model[0x31ff] = 0x32
        elif which == 'gfx+sfx.poke':
            g.gfx.to_bytes()[0x1fff] = 0x11
            model[0x1fff] = 0x11
            g.gfx.to_bytes()[0x15] = 0x12
            model[0x15] = 0x12
            g.sfx.to_bytes()[0] = 0x13
            model[0x3200] = 0x13
            g.sfx.to_bytes()[0x10ff] = 0x14
            model[0x42ff] = 0x14
    for which in ('map.set_cell', 'gff.poke', 'music.poke', 'gfx+sfx.poke'):
        for two_games in (False, True):
            for i, (s1, e1) in enumerate(wr):
                for j, (s2, e2) in enumerate(wr):
                    g = make_game(pat0)
                    model = bytearray(pat0[:TOTAL])
                    g2 = make_game(fill(seed, 2)) if two_games else g
                    model2 = bytearray(fill(seed, 2)[:TOTAL]) if two_games else model
                    res.evaluations += 1
                    res.transitions += 3
                    res.nontriv(('interleaved', which, two_games, i, j))
                    case = {'interleaved': True, 'seed': seed}
                    sig = 'C18|interleaved|%s|%s|first=%s..%s|second=%s..%s' % (which, 'two-carts' if two_games else 'one-cart', rel(s1), rel(e1), rel(s2), rel(e2))
                    try:
                        d1 = fill(seed, 4)[s1:e1]
                        g.write_cart_data(d1, s1)
                        model[s1:e1] = d1
                        edits(g, model, which)
                        d2 = fill(seed, 5)[s2:e2]
                        g2.write_cart_data(d2, s2)
                        model2[s2:e2] = d2
                    except Exception as e:
                        res.violation(sig + '|raise|' + type(e).__name__, 'write / %s / write raised %r' % (which, e), case)
                        continue
                    if image(g) != bytes(model) or image(g2) != bytes(model2):
                        img = image(g) if image(g) != bytes(model) else image(g2)
                        mdl = model if image(g) != bytes(model) else model2
                        a = next((k for k in range(min(len(img), len(mdl))) if img[k] != mdl[k]), min(len(img), len(mdl)))
                        res.violation(sig, 'write [%#x,%#x); %s; write [%#x,%#x)%s: the cart differs from the model at %#x (%s the second write\'s range)' % (
                            s1, e1, which, s2, e2, ' on another cart' if two_games else '', a, 'inside' if s2 <= a < e2 else 'OUTSIDE'), case)
                        continue
                    res.outcome(('interleaved', which, two_games))
    res.states += 1


def region_of(a):
    return next((n for n, lo, hi in REGIONS if lo <= a < hi), 'none')


def shards(tier, seed):
    depth, deltas = plan(tier)
    return [(tier, seed, init, i) for init in (0, 1) for i in range(len(WRITES[deltas[0]]))] + [('replace', seed), ('alias', seed), ('loaded', seed), ('twins', seed), ('oddsize', seed), ('live', seed), ('interleaved', seed)] + [('sweep', seed, k) for k in range(SWEEP_PARTS)]


def run_shard(item):
    if item[0] == 'replace':
        res = ShardResult()
        replace_history(item[1], res)
        res.sample({'history': 'write x6; replace section object(s); write x6; ... on one Game'})
        return res
    if item[0] == 'sweep':
        res = ShardResult()
        address_sweep(item[1], item[2], res)
        if item[2] == 0:
            res.sample({'history': 'a 1-byte write at every address 0..0x42ff (8 stripes), 5-byte writes at every 3rd, 600-byte writes at every 257th'})
        return res
    if item[0] == 'interleaved':
        res = ShardResult()
        interleaved_history(item[1], res)
        res.sample({'history': 'write 4 bytes at 0x2ffe; map.set_cell(127,31,0x77); write 1 byte at 0x0'})
        return res
    if item[0] == 'live':
        res = ShardResult()
        live_source_history(item[1], res)
        res.sample({'history': 'g.write_cart_data(g.music.to_bytes(), 0x3000): the data is the live storage of a region'})
        return res
    if item[0] == 'oddsize':
        res = ShardResult()
        oddsize_history(item[1], res)
        res.sample({'history': 'carts with one region larger than its memory-map slot (extra .p8 rows / longer from_bytes buffer); 12 boundary writes'})
        return res
    if item[0] == 'twins':
        res = ShardResult()
        twins_history(item[1], res)
        res.sample({'history': 'two carts loaded from the same (sparse/full .p8, .p8.png) file; 9 boundary writes into one'})
        return res
    if item[0] == 'loaded':
        res = ShardResult()
        loaded_history(item[1], res)
        res.sample({'history': 'carts loaded from .p8 files with full, short and missing sections; 9 boundary writes each'})
        return res
    if item[0] == 'alias':
        res = ShardResult()
        alias_history(item[1], res)
        res.sample({'history': 'two carts built by the public constructors from shared bytearrays / from each other\'s to_bytes(); 9 boundary writes alternating between them'})
        return res
    tier, seed, init, i = item
    depth, deltas = plan(tier)
    res = ShardResult()
    first = WRITES[deltas[0]][i]
    explore(first, init, seed, depth, deltas, res)
    if i % 97 == 0:
        res.sample({'initial': 'pattern' if init == 0 else 'zeros',
                    'first_write': ['%#x' % first[0], '%#x' % first[1]], 'depth': depth})
    return res


def replay(case):
    res = ShardResult()
    if 'replace' in case:
        replace_history(0, res)
        return [(s, v[0]) for s, v in res.violations.items()]
    if 'interleaved' in case:
        interleaved_history(case.get('seed', 0), res)
        return [(s_, v[0]) for s_, v in res.violations.items()]
    if 'live_source' in case:
        live_source_history(case.get('seed', 0), res)
        return [(s_, v[0]) for s_, v in res.violations.items()]
    if 'sweep' in case:
        address_sweep(0, case['sweep'], res)
        return [(s_, v[0]) for s_, v in res.violations.items()]
    if 'oddsize' in case:
        oddsize_history(0, res)
        return [(s_, v[0]) for s_, v in res.violations.items()]
    if 'twins' in case:
        twins_history(0, res)
        return [(s_, v[0]) for s_, v in res.violations.items()]
    if 'loaded' in case:
        loaded_history(0, res)
        return [(s, v[0]) for s, v in res.violations.items()]
    if 'alias' in case:
        alias_history(0, res)
        return [(s, v[0]) for s, v in res.violations.items()]
    hist = case['hist']
    for init in (0, 1):
        for seed in (0,):
            model = initial(seed, init)
            pats = [fill(seed, k + 1) for k in range(len(hist))]
            ok = True
            for lvl, (s, e) in enumerate(hist):
                g = make_game(model)
                ok, model = apply_and_check(g, model, s, e, pats[lvl], res, hist[:lvl])
                if not ok:
                    break
    return [(s, v[0]) for s, v in res.violations.items()]
