"""C17 — section accessors read back what was set and touch nothing else.

Explicit-state search: real Gfx/Map/Gff/Sfx/Music objects (inside one real Game) beside the plain-array
reference model (lib/refmodel.py); all sequences of in-contract accessor calls up to a depth bound from
three initial contents; after EVERY transition all five regions are compared byte for byte (frame
condition) and every observer (getter) is compared with the model.
"""
from lib import carts
from lib import refcodec as rc
from lib import refmodel as M
from lib.core import ShardResult, h64

LEVEL = 'model_checking'
RULE = ('DFS/BFS over accessor-call sequences on real section objects beside a plain-array model, deduplicated on the '
        'full 0x4300-byte image; components: gfx+map (set_sprite ids {0,15,16,240,255} x 6 shapes x 5 offsets crossing '
        'the right/bottom edge by 0/1/9, set_cell at the 8 corners incl. rows 31/32/63, set_rect_tiles crossing each '
        'edge by 0/1/many), gff (set/clear/reset x ids x flags), sfx (set_note fields in {None,min,max}, '
        'set_properties), music (set_channel, set_properties); all getters compared after every transition; '
        'non-trivial = a transition that changes memory or whose arguments cross an edge')
ASSUMPTIONS = ['the reference model implements the accessor docstrings (clipping, TRANSPARENT, tile 0 empty, silent '
               'channel = 0x41+channel)',
               'arguments stay inside each method\'s documented contract (its asserts)',
               'ids/coordinates between the explored corner values behave like them (index arithmetic is affine)']
BOUNDS = {'quick': {'gfxmap_depth': 2, 'gff_depth': 3, 'sfx_depth': 2, 'music_depth': 2, 'initial_states': 3},
          'thorough': {'gfxmap_depth': 3, 'gff_depth': 4, 'sfx_depth': 3, 'music_depth': 3, 'initial_states': 3,
                       'deep_menu': 'levels >= 3 use a reduced menu (every 4th operation)'}}

REGIONS = [n for n, _ in rc.REGION_ORDER]


def initial_fills(which, seed):
    out = {}
    for idx, (n, (lo, hi)) in enumerate(rc.REGION_ORDER):
        if which == 0:
            out[n] = bytes(hi - lo)
        elif which == 1:
            out[n] = bytes([0xff]) * (hi - lo)
        else:
            out[n] = carts.seeded_region(hi - lo, seed, idx + 7)
    return out


# ---------------------------------------------------------------- operation menus
def shape(kind, k):
    def val(x, y):
        return (x + 3 * y + k) % 16
    if kind == '1x1':
        return [[val(0, 0)]]
    if kind == '8x8':
        return [[val(x, y) for x in range(8)] for y in range(8)]
    if kind == '9x9':
        return [[val(x, y) for x in range(9)] for y in range(9)]
    if kind == '17x17':
        return [[val(x, y) for x in range(17)] for y in range(17)]
    if kind == 'ragged':
        return [[val(x, y) for x in range(n)] for y, n in enumerate((3, 8, 0, 1, 10, 2))]
    if kind == 'transp':
        return [[16 if (x + y) % 2 else val(x, y) for x in range(9)] for y in range(9)]
    if ':' in kind:
        return shape(kind.split(':')[0], k)
    raise ValueError(kind)


def as_iterables(rows, how):
    """The same pixels / tile ids handed over in another shape the docstrings allow ("an iterable of iterables"): rows as
    one-shot iterators, the whole thing as a generator of generators, tuples, bytes rows, reversed() objects."""
    if how == 'iter-rows':
        return [iter(r) for r in rows]
    if how == 'gen-gen':
        return ((v for v in r) for r in rows)
    if how == 'tuples':
        return tuple(tuple(r) for r in rows)
    if how == 'bytes-rows':
        return [bytes(r) for r in rows]
    if how == 'reversed':
        return reversed([reversed(list(reversed(r))) for r in reversed(rows)])
    return rows


SHAPES = ['1x1', '8x8', '9x9', '17x17', 'ragged', 'transp']
SPR_IDS = [0, 15, 16, 240, 255]
SPR_OFFS = [(0, 0), (1, 1), (7, 0), (0, 7), (8, 8)]


def gfxmap_ops():
    ops = []
    k = 0
    for id in SPR_IDS:
        for sh in SHAPES:
            for off in SPR_OFFS:
                k += 1
                ops.append(('set_sprite', id, sh, k % 16, off[0], off[1]))
    for (x, y) in [(0, 0), (127, 0), (0, 31), (127, 31), (0, 32), (127, 32), (0, 63), (127, 63)]:
        for v in (0, 1, 255):
            ops.append(('set_cell', x, y, v))
    for x in (0, 125, 126, 127):
        for y in (0, 30, 31, 61, 62, 63):
            ops.append(('set_rect_tiles', '3x3', x, y))
    for x, y in [(120, 28), (127, 60), (0, 56)]:
        ops.append(('set_rect_tiles', '12x12', x, y))
    ops.append(('set_rect_tiles', 'ragged', 126, 31))
    return ops


def rect(kind, x, y):
    if kind == '3x3':
        return [[(x + y * 5 + dx + dy * 3 + 1) & 0xff for dx in range(3)] for dy in range(3)]
    if kind == '12x12':
        return [[(x * 3 + y + dx * 7 + dy * 11 + 2) & 0xff for dx in range(12)] for dy in range(12)]
    return [[9], [8, 7, 6, 5], [], [4, 3]]


def gfxmap_observers(level):
    obs = [('get_sprite', 0, 1, 1), ('get_sprite', 255, 1, 1), ('get_sprite', 15, 2, 1), ('get_sprite', 240, 1, 2),
           ('get_sprite', 255, 2, 2), ('get_sprite', 16, 1, 1),
           ('get_cell', 0, 0), ('get_cell', 127, 31), ('get_cell', 0, 32), ('get_cell', 127, 63), ('get_cell', 127, 32),
           ('get_rect_tiles', 126, 30, 3, 3), ('get_rect_tiles', 127, 62, 2, 2), ('get_rect_tiles', 0, 31, 2, 2),
           ('get_rect_tiles', 125, 61, 4, 3),
           ('get_rect_pixels', 126, 31, 2, 2), ('get_rect_pixels', 0, 0, 1, 1), ('get_rect_pixels', 127, 63, 2, 1)]
    if level == 0:
        obs += [('get_sprite', 0, 16, 16), ('get_sprite', 0, 17, 17), ('get_rect_tiles', 0, 0, 128, 64)]
    return obs


def gff_ops():
    return [(fn, id, fl) for fn in ('set_flags', 'clear_flags', 'reset_flags')
            for id in (0, 255) for fl in (0, 1, 0x80, 0xff)]


def gff_observers(level):
    return [('get_flags', id, fl) for id in (0, 255, 1) for fl in (1, 0x80, 0xff)]


def sfx_ops():
    ops = []
    for (id, note) in [(0, 0), (0, 31), (63, 31)]:
        for p in (None, 0, 63):
            for w in (None, 0, 15):
                for v in (None, 0, 7):
                    for e in (None, 0, 7):
                        ops.append(('set_note', id, note, p, w, v, e))
    # intermediate waveform values exercise the split waveform bits
    for w in (1, 2, 3, 4, 7, 8, 11, 12):
        ops.append(('set_note', 1, 1, None, w, None, None))
    for id in (0, 63):
        for a in (None, 0, 255):
            for b in (None, 1, 255):
                for c in (None, 0, 63):
                    for d in (None, 0, 63):
                        ops.append(('sfx_set_properties', id, a, b, c, d))
    return ops


def sfx_observers(level):
    return ([('get_note', id, n) for (id, n) in [(0, 0), (0, 31), (63, 31), (1, 1), (0, 1), (63, 30)]] +
            [('sfx_get_properties', id) for id in (0, 63, 1)])


def music_ops():
    ops = []
    for id in (0, 63):
        for ch in range(4):
            for p in (None, 0, 63):
                ops.append(('set_channel', id, ch, p))
        for a in (None, True, False):
            for b in (None, True, False):
                for c in (None, True, False):
                    ops.append(('music_set_properties', id, a, b, c))
    return ops


def music_observers(level):
    return ([('get_channel', id, ch) for id in (0, 63, 1) for ch in range(4)] +
            [('music_get_properties', id) for id in (0, 63, 1)])


COMPONENTS = {
    'gfxmap': (gfxmap_ops, gfxmap_observers),
    'gff': (gff_ops, gff_observers),
    'sfx': (sfx_ops, sfx_observers),
    'music': (music_ops, music_observers),
}


# ---------------------------------------------------------------- apply to implementation and to model
def apply_impl(g, op):
    fn = op[0]
    if fn == 'set_sprite':
        _, id, sh, k, xo, yo = op
        rows = shape(sh, k)
        if ':' in sh:
            rows = as_iterables(rows, sh.split(':')[1])
        return g.gfx.set_sprite(id, rows, tile_x_offset=xo, tile_y_offset=yo)
    if fn == 'set_cell':
        return g.map.set_cell(op[1], op[2], op[3])
    if fn == 'set_rect_tiles':
        rows = rect(op[1].split(':')[0], op[2], op[3])
        if ':' in op[1]:
            rows = as_iterables(rows, op[1].split(':')[1])
        return g.map.set_rect_tiles(rows, op[2], op[3])
    if fn == 'get_sprite':
        return g.gfx.get_sprite(op[1], tile_width=op[2], tile_height=op[3])
    if fn == 'get_cell':
        return g.map.get_cell(op[1], op[2])
    if fn == 'get_rect_tiles':
        return g.map.get_rect_tiles(op[1], op[2], width=op[3], height=op[4])
    if fn == 'get_rect_pixels':
        return g.map.get_rect_pixels(op[1], op[2], width=op[3], height=op[4])
    if fn in ('set_flags', 'clear_flags', 'reset_flags', 'get_flags'):
        return getattr(g.gff, fn)(op[1], op[2])
    if fn == 'set_note':
        return g.sfx.set_note(op[1], op[2], pitch=op[3], waveform=op[4], volume=op[5], effect=op[6])
    if fn == 'get_note':
        return g.sfx.get_note(op[1], op[2])
    if fn == 'sfx_set_properties':
        return g.sfx.set_properties(op[1], editor_mode=op[2], note_duration=op[3], loop_start=op[4], loop_end=op[5])
    if fn == 'sfx_get_properties':
        return g.sfx.get_properties(op[1])
    if fn == 'set_channel':
        return g.music.set_channel(op[1], op[2], op[3])
    if fn == 'get_channel':
        return g.music.get_channel(op[1], op[2])
    if fn == 'music_set_properties':
        return g.music.set_properties(op[1], begin=op[2], end=op[3], stop=op[4])
    if fn == 'music_get_properties':
        return g.music.get_properties(op[1])
    raise ValueError(op)


def apply_model(m, op):
    fn = op[0]
    if fn == 'set_sprite':
        _, id, sh, k, xo, yo = op
        return M.set_sprite(m, id, shape(sh, k), xo, yo)
    if fn == 'set_cell':
        return M.set_cell(m, op[1], op[2], op[3])
    if fn == 'set_rect_tiles':
        return M.set_rect_tiles(m, rect(op[1].split(':')[0], op[2], op[3]), op[2], op[3])
    if fn == 'get_sprite':
        return M.get_sprite(m, op[1], op[2], op[3])
    if fn == 'get_cell':
        return M.get_cell(m, op[1], op[2])
    if fn == 'get_rect_tiles':
        return M.get_rect_tiles(m, op[1], op[2], op[3], op[4])
    if fn == 'get_rect_pixels':
        return M.get_rect_pixels(m, op[1], op[2], op[3], op[4])
    if fn in ('set_flags', 'clear_flags', 'reset_flags', 'get_flags'):
        return getattr(M, fn)(m, op[1], op[2])
    if fn == 'set_note':
        return M.set_note(m, op[1], op[2], op[3], op[4], op[5], op[6])
    if fn == 'get_note':
        return M.get_note(m, op[1], op[2])
    if fn == 'sfx_set_properties':
        return M.sfx_set_properties(m, op[1], op[2], op[3], op[4], op[5])
    if fn == 'sfx_get_properties':
        return M.sfx_get_properties(m, op[1])
    if fn == 'set_channel':
        return M.set_channel(m, op[1], op[2], op[3])
    if fn == 'get_channel':
        return M.get_channel(m, op[1], op[2])
    if fn == 'music_set_properties':
        return M.music_set_properties(m, op[1], op[2], op[3], op[4])
    if fn == 'music_get_properties':
        return M.music_get_properties(m, op[1])
    raise ValueError(op)


def norm_result(r):
    """Getter results: lists of bytearrays / tuples / ints -> comparable plain data."""
    if isinstance(r, (list, tuple)):
        return [norm_result(x) for x in r]
    if isinstance(r, (bytes, bytearray)):
        return list(r)
    if isinstance(r, bool):
        return bool(r)
    return r


def op_sig(op):
    fn = op[0]
    if fn == 'set_sprite':
        _, id, sh, k, xo, yo = op
        how = ('|rows-as-' + sh.split(':')[1]) if ':' in sh else ''
        sh = sh.split(':')[0]
        col, row = id % 16, id // 16
        w = {'1x1': 1, '8x8': 8, '9x9': 9, '17x17': 17, 'ragged': 10, 'transp': 9}[sh]
        hgt = {'1x1': 1, '8x8': 8, '9x9': 9, '17x17': 17, 'ragged': 6, 'transp': 9}[sh]
        cx = col * 8 + xo + w - 128
        cy = row * 8 + yo + hgt - 128
        return 'set_sprite|right%s|bottom%s%s' % (edge(cx), edge(cy), how)
    if fn == 'set_rect_tiles':
        rk = op[1].split(':')[0]
        how = ('|rows-as-' + op[1].split(':')[1]) if ':' in op[1] else ''
        w = {'3x3': 3, '12x12': 12, 'ragged': 4}[rk]
        hgt = {'3x3': 3, '12x12': 12, 'ragged': 4}[rk]
        return 'set_rect_tiles|right%s|bottom%s%s' % (edge(op[2] + w - 128), edge(op[3] + hgt - 64), how)
    if fn == 'set_cell':
        return 'set_cell|row%s' % ('hi' if op[2] > 31 else 'lo')
    return fn


def edge(c):
    if c < 0:
        return '<'
    if c == 0:
        return '=0'
    if c == 1:
        return '+1'
    return '+many'


def crosses_edge(op):
    s = op_sig(op)
    return '+' in s or '=0' in s


# ---------------------------------------------------------------- search
_GAME = []


def make_game(mem):
    """One real Game per process; every step starts from fresh copies of the region bytes."""
    if not _GAME:
        _GAME.append(carts.make_game({n: bytes(mem[n]) for n in REGIONS}, version=33))
    g = _GAME[0]
    for n in REGIONS:
        getattr(g, n)._data = bytearray(mem[n])
    return g


def step(mem, op, res, hist, level, observers, game=None):
    """Runs one mutating op on a fresh real Game built from `mem` and on a copy of the model.
    Returns the new model memory, or None when a violation was recorded."""
    g = game if game is not None else make_game(mem)
    m2 = M.copy_mem(mem)
    res.transitions += 1
    res.evaluations += 1
    case = {'hist': hist + [list(op)]}
    apply_model(m2, op)
    try:
        apply_impl(g, op)
    except Exception as e:
        res.violation('C17|raise|%s|%s' % (type(e).__name__, op_sig(op)),
                      '%r raised %r (in-contract call, documented to clip)' % (op, e), case)
        return None
    got = carts.game_regions(g)
    for n in REGIONS:
        if got[n] != bytes(m2[n]):
            if len(got[n]) != len(m2[n]):
                res.violation('C17|resize|%s|%s' % (n, op_sig(op)), '%r changed the size of %s' % (op, n), case)
                return None
            i = next(i for i in range(len(got[n])) if got[n][i] != m2[n][i])
            touched = bytes(m2[n]) != bytes(mem[n])
            res.violation('C17|memory|%s|%s' % (n, op_sig(op)),
                          '%r: %s[%#x] is %#x, model says %#x (%s)' % (
                              op, n, i, got[n][i], m2[n][i],
                              'wrong value written' if touched and m2[n][i] != mem[n][i] else 'byte not addressed by the edit'),
                          case)
            return None
    changed = any(bytes(m2[n]) != bytes(mem[n]) for n in REGIONS)
    if changed or crosses_edge(op):
        res.nontriv((tuple(map(tuple, hist)), op))
    for ob in observers(level):
        res.count('observations')
        want = norm_result(apply_model(m2, ob))
        try:
            have = norm_result(apply_impl(g, ob))
        except Exception as e:
            res.violation('C17|getter-raise|%s|%s' % (type(e).__name__, ob[0]),
                          'after %r: %r raised %r' % (op, ob, e), {'hist': case['hist'], 'observer': list(ob)})
            return None
        if have != want:
            res.violation('C17|getter|%s' % ob[0],
                          'after %r: %r returned %r..., model says %r...' % (op, ob, str(have)[:80], str(want)[:80]),
                          {'hist': case['hist'], 'observer': list(ob)})
            return None
    # getters must not modify anything
    got2 = carts.game_regions(g)
    if got2 != got:
        res.violation('C17|getter-mutates', 'a getter modified cart memory after %r' % (op,), case)
        return None
    res.outcome((op_sig(op), changed))
    return m2


def mem_key(m):
    return h64(b''.join(bytes(m[n]) for n in REGIONS))


def explore(component, first_idx, init_which, seed, depth, res, deep_stride, lvl1_stride=1):
    ops_fn, obs_fn = COMPONENTS[component]
    ops = ops_fn()
    seen = set()
    mem0 = M.new_mem(initial_fills(init_which, seed))

    def rec(mem, hist, level):
        if level == 0:
            menu = [ops[first_idx]]
        elif level >= 2 and deep_stride > 1:
            menu = ops[(first_idx + level) % deep_stride::deep_stride]
        elif level == 1 and lvl1_stride > 1:
            menu = ops[first_idx % lvl1_stride::lvl1_stride]
        else:
            menu = ops
        for op in menu:
            m2 = step(mem, op, res, hist, level, obs_fn)
            if m2 is None:
                continue
            k = mem_key(m2)
            if k in seen:
                continue
            seen.add(k)
            res.states += 1
            if level + 1 < depth:
                rec(m2, hist + [list(op)], level + 1)
    rec(mem0, [], 0)


# ---------------------------------------------------------------- carts that come from the loaders
DATA_SECTIONS = ['gfx', 'gff', 'map', 'sfx', 'music']


def p8_text(fills, order, present):
    """A .p8 file (independent writer) with the data sections in the given order; absent ones are left out."""
    out = [rc.P8_HEADER, b'version 33\n', b'__lua__\n', b'x=1\n']
    rows = {'gfx': lambda b: rc.gfx_rows(b), 'gff': lambda b: rc.hex_rows(b, 128), 'map': lambda b: rc.hex_rows(b, 128),
            'sfx': lambda b: rc.sfx_rows(b), 'music': lambda b: rc.music_rows(b)}
    for n in order:
        if n in present:
            out.append(b'__' + n.encode() + b'__\n' + b''.join(r.encode() + b'\n' for r in rows[n](fills[n])))
    return b''.join(out)


def loaded_cases(tier):
    """(tag, order, present): every order of the five data sections with all present, and every subset of present
    sections in the usual order and in reversed order."""
    import itertools
    out = []
    for order in itertools.permutations(DATA_SECTIONS):
        out.append(('order', list(order), list(DATA_SECTIONS)))
    for mask in range(32):
        present = [n for i, n in enumerate(DATA_SECTIONS) if mask >> i & 1]
        out.append(('subset', list(DATA_SECTIONS), present))
        out.append(('subset-reversed', list(reversed(DATA_SECTIONS)), present))
    out.append(('png', None, list(DATA_SECTIONS)))
    # sections with trailing rows left out, as PICO-8 writes them ('short:<section>:<rows>')
    for name, full in (('gfx', 128), ('map', 32), ('gff', 2), ('music', 64), ('sfx', 64)):
        for r in (0, 1, full - 1):
            out.append(('short:%s:%d' % (name, r), list(DATA_SECTIONS), list(DATA_SECTIONS)))
    out.append(('short:all:2', list(DATA_SECTIONS), list(DATA_SECTIONS)))
    return out


def loaded_menu():
    ops = gfxmap_ops()
    menu = ops[::max(1, len(ops) // 24)]
    menu += [o for o in ops if o[0] == 'set_cell'][:8]
    menu += gff_ops()[::7][:6] + sfx_ops()[::11][:6] + music_ops()[::5][:6]
    return menu


def run_loaded(tag, order, present, seed, res):
    """The accessors on a cart as the LOADERS hand it out (object wiring between Map and Gfx included), not on a cart
    whose region buffers were injected: initial observation, then a history of edits on that one cart."""
    import io
    from pico8.game.formatter.p8 import P8Formatter
    from pico8.game.formatter.p8png import P8PNGFormatter
    fills = initial_fills(2, seed)
    fills['music'] = bytes((b & 0x7f) if i % 4 == 3 else b for i, b in enumerate(fills['music']))
    case = {'loaded': [tag, order, present]}
    try:
        if tag == 'png':
            mem = bytearray(0x8001)
            pos = 0
            for n, (lo, hi) in rc.REGION_ORDER:
                mem[lo:hi] = fills[n]
            mem[0x4300:0x4303] = b'x=1'
            mem[0x8000] = 33
            data = rc.png_encode_rgba(160, 205, rc.stego_pack(bytes(mem), 160, 205, [bytes(160 * 4)] * 205))
            g = P8PNGFormatter.from_file(io.BytesIO(data), filename='x.p8.png')
        elif tag.startswith('short:'):
            _, name, r = tag.split(':')
            text = p8_text(fills, order, present)
            # cut the named section(s) down to r rows
            lines = text.split(b'\n')
            outl, cur, kept = [], None, 0
            for ln in lines:
                if ln.startswith(b'__') and ln.endswith(b'__'):
                    cur, kept = ln.strip(b'_').decode(), 0
                    outl.append(ln)
                    continue
                if cur in DATA_SECTIONS and (name == 'all' or cur == name):
                    if kept >= int(r):
                        continue
                    kept += 1
                outl.append(ln)
            g = P8Formatter.from_file(io.BytesIO(b'\n'.join(outl)), filename='x.p8')
        else:
            g = P8Formatter.from_file(io.BytesIO(p8_text(fills, order, present)), filename='x.p8')
    except Exception as e:
        res.violation('C17|loaded|load-raise|%s|%s' % (type(e).__name__, tag), 'loading the cart raised %r' % e, case)
        return
    got = carts.game_regions(g)
    for n in present:
        if got[n] != bytes(fills[n]):
            res.count('loaded_region_differs_from_file')     # C03/C16 decide the loaders; the model starts from what was loaded
    mem = M.new_mem(got)
    sig0 = len(res.violations)
    hist = []
    # observe before any edit, then after each edit of the history
    for comp, (ops_fn, obs_fn) in COMPONENTS.items():
        for ob in obs_fn(0):
            res.count('observations')
            want = norm_result(apply_model(mem, ob))
            try:
                have = norm_result(apply_impl(g, ob))
            except Exception as e:
                res.violation('C17|loaded|getter-raise|%s|%s|%s' % (type(e).__name__, ob[0], tag),
                              'freshly loaded cart (%s, sections %r in order %r): %r raised %r' % (tag, present, order, ob, e), case)
                return
            if have != want:
                res.violation('C17|loaded|getter|%s|%s' % (ob[0], tag),
                              'freshly loaded cart (%s, sections %r in order %r): %r returned %r..., the loaded memory says '
                              '%r...' % (tag, present, order, ob, str(have)[:80], str(want)[:80]), case)
                return
    for op in loaded_menu():
        comp = next(c for c, (ops_fn, _) in COMPONENTS.items() if op in ops_fn())
        r = ShardResult()
        m2 = step(mem, op, r, hist, 0, COMPONENTS[comp][1], game=g)
        res.evaluations += r.evaluations
        res.transitions += r.transitions
        for sig, v in r.violations.items():
            res.violation('C17|loaded|%s|%s' % (sig.split('|', 1)[1], tag),
                          v[0] + ' [cart loaded from %s, sections %r in order %r]' % (tag, present, order),
                          {'loaded': [tag, order, present], 'hist': hist + [list(op)]})
        if m2 is None:
            return
        res.nontriv(('loaded', tag, tuple(order or ()), tuple(present), op))
        mem = m2
        hist = hist + [list(op)]
    res.outcome(('loaded', tag, len(present)))


# ---------------------------------------------------------------- depth-1 sweeps, exhaustive in the arguments
def sweep_getters():
    """Every getter over its whole argument range (ids, coordinates) and sizes crossing each edge by 0, 1 and many."""
    g = []
    sizes = (1, 2, 3, 16, 17)
    for id in range(256):
        for w in sizes:
            for h in sizes:
                if (id % 16 in (0, 1, 14, 15) or id // 16 in (0, 1, 14, 15) or (w, h) in ((1, 1), (2, 1), (1, 2))) and w * h <= 64 or \
                        (id in (0, 15, 240, 255, 17) and True):
                    g.append(('get_sprite', id, w, h))
    for y in range(64):
        for x in range(128):
            g.append(('get_cell', x, y))
    for x in (0, 1, 63, 125, 126, 127):
        for y in (0, 1, 30, 31, 32, 33, 61, 62, 63):
            # (the methods' contract: y + height <= 64; the right edge may be crossed)
            for w in (1, 2, 3, 127, 128, 129):
                for h in (1, 2, 3, 33, 64, 65):
                    if y + h <= 64:
                        g.append(('get_rect_tiles', x, y, w, h))
            for (w, h) in ((1, 1), (2, 2), (1, 3), (3, 1), (4, 4)):
                if y + h <= 64:
                    g.append(('get_rect_pixels', x, y, w, h))
    for id in range(256):
        for fl in (1, 2, 0x40, 0x80, 0x55, 0xff):
            g.append(('get_flags', id, fl))
    for id in range(64):
        for n in range(32):
            g.append(('get_note', id, n))
        g.append(('sfx_get_properties', id))
        g.append(('music_get_properties', id))
        for ch in range(4):
            g.append(('get_channel', id, ch))
    return g


def sweep_setters():
    """Every setter once over its whole id / coordinate range with boundary values (each applied to the same memory)."""
    ops = []
    for y in range(64):
        for x in range(128):
            ops.append(('set_cell', x, y, (x * 7 + y * 13 + 1) & 0xff))
    for id in range(256):
        ops.append(('set_sprite', id, '8x8', id % 16, 0, 0))
        ops.append(('set_sprite', id, '9x9', (id + 3) % 16, id % 8, (id // 16) % 8))
        for fn in ('set_flags', 'clear_flags', 'reset_flags'):
            for fl in (1, 0x80, 0x5a, 0xff, 0):
                ops.append((fn, id, fl))
    for id in range(64):
        for n in range(32):
            ops.append(('set_note', id, n, (id + n) % 64, (id * 3 + n) % 16, n % 8, (id + n) % 8))
            ops.append(('set_note', id, n, None, (n + id) % 16, None, None))
        ops.append(('sfx_set_properties', id, id % 256, (id * 5 + 1) % 256, id, 63 - id))
        for ch in range(4):
            for pat in (None, 0, id, 63):
                ops.append(('set_channel', id, ch, pat))
        for a in (None, True, False):
            ops.append(('music_set_properties', id, a, not a if a is not None else None, a))
    for x in range(0, 128, 9):
        for y in range(0, 64, 5):
            ops.append(('set_rect_tiles', '3x3', x, y))
    # the same data in every shape of "iterable of iterables"
    for how in ('iter-rows', 'gen-gen', 'tuples', 'bytes-rows', 'reversed'):
        for id in (0, 17, 255):
            for sh in ('8x8', '9x9', 'ragged', 'transp'):
                if how == 'bytes-rows' and sh == 'transp':
                    continue
                ops.append(('set_sprite', id, sh + ':' + how, id % 16, id % 3, id % 5))
        for (x, y) in ((0, 0), (126, 30), (100, 62)):
            for rk in ('3x3', 'ragged'):
                ops.append(('set_rect_tiles', rk + ':' + how, x, y))
    return ops


SWEEP_PARTS = 24


def light_observers(level):
    return [('get_sprite', 0, 1, 1), ('get_cell', 0, 0), ('get_cell', 127, 63), ('get_flags', 0, 0xff), ('get_note', 0, 0),
            ('sfx_get_properties', 63), ('get_channel', 63, 3), ('music_get_properties', 0)]


def run_sweep(part, seed, res):
    for init in (2, 1):
        fills = initial_fills(init, seed)
        mem = M.new_mem(fills)
        g = carts.make_game({n: bytes(fills[n]) for n in REGIONS}, version=33)
        before = carts.game_regions(g)
        for i, ob in enumerate(sweep_getters()):
            if i % SWEEP_PARTS != part:
                continue
            res.evaluations += 1
            res.count('sweep_getter_calls')
            want = norm_result(apply_model(mem, ob))
            try:
                have = norm_result(apply_impl(g, ob))
            except Exception as e:
                res.violation('C17|sweep|getter-raise|%s|%s' % (type(e).__name__, ob[0]), '%r raised %r' % (ob, e),
                              {'sweep': 'getter', 'op': list(ob), 'init': init})
                continue
            if have != want:
                res.violation('C17|sweep|getter|%s' % ob[0], '%r returned %r..., the memory says %r...' % (ob, str(have)[:80], str(want)[:80]),
                              {'sweep': 'getter', 'op': list(ob), 'init': init})
        if carts.game_regions(g) != before:
            res.violation('C17|sweep|getter-mutates', 'a getter of sweep part %d changed cart memory' % part, {'sweep': 'getter-mutates', 'part': part, 'init': init})
        for i, op in enumerate(sweep_setters()):
            if i % SWEEP_PARTS != part:
                continue
            r = ShardResult()
            step(mem, op, r, [], 1, light_observers)
            res.evaluations += r.evaluations
            res.transitions += r.transitions
            res.count('sweep_setter_calls')
            for sig, v in r.violations.items():
                res.violation('C17|sweep|%s' % sig.split('|', 1)[1], v[0] + ' [sweep, initial contents %d]' % init,
                              {'sweep': 'setter', 'op': list(op), 'init': init})
            res.nontriv(('sweep', init, op))


# ---------------------------------------------------------------- two carts that must not share memory
TWIN_MODES = ['loaded-sparse-lua-only', 'loaded-sparse-gfx-only', 'loaded-sparse-no-map', 'loaded-full', 'loaded-png',
              'from_bytes-of-to_bytes', 'init-of-to_bytes', 'shared-caller-buffers-from_bytes', 'shared-caller-buffers-init',
              'label-from-gfx']


def _twin_pair(mode, seed):
    """Returns (A, B, caller buffers or {}, reload function or None)."""
    import io
    from pico8.game.formatter.p8 import P8Formatter
    from pico8.game.formatter.p8png import P8PNGFormatter
    from pico8.game.game import Game
    from pico8.gfx.gfx import Gfx
    fills = initial_fills(2, seed)
    fills['music'] = bytes((b & 0x7f) if i % 4 == 3 else b for i, b in enumerate(fills['music']))
    if mode.startswith('loaded-'):
        if mode == 'loaded-png':
            mem = bytearray(0x8001)
            for n, (lo, hi) in rc.REGION_ORDER:
                mem[lo:hi] = fills[n]
            mem[0x4300:0x4303] = b'x=1'
            mem[0x8000] = 33
            data = rc.png_encode_rgba(160, 205, rc.stego_pack(bytes(mem), 160, 205, [bytes(160 * 4)] * 205))

            def load():
                return P8PNGFormatter.from_file(io.BytesIO(data), filename='x.p8.png')
        else:
            present = {'loaded-sparse-lua-only': [], 'loaded-sparse-gfx-only': ['gfx'],
                       'loaded-sparse-no-map': ['gfx', 'gff', 'sfx', 'music'], 'loaded-full': list(DATA_SECTIONS)}[mode]
            text = p8_text(fills, list(DATA_SECTIONS), present)

            def load():
                return P8Formatter.from_file(io.BytesIO(text), filename='x.p8')
        return load(), load(), {}, load
    classes = {n: type(getattr(Game.make_empty_game(), n)) for n in REGIONS}

    def construct(name, buf, how, gfx=None):
        cls = classes[name]
        if how == 'from_bytes':
            return cls.from_bytes(buf, version=33, gfx=gfx) if name == 'map' else cls.from_bytes(buf, version=33)
        return cls(data=buf, version=33, gfx=gfx) if name == 'map' else cls(data=buf, version=33)
    a = carts.make_game({n: bytes(fills[n]) for n in REGIONS}, version=33)
    b = Game.make_empty_game(version=33)
    bufs = {}
    if mode in ('from_bytes-of-to_bytes', 'init-of-to_bytes'):
        how = mode.split('-')[0]
        b.gfx = construct('gfx', a.gfx.to_bytes(), how)
        for n in ('map', 'gff', 'music', 'sfx'):
            setattr(b, n, construct(n, getattr(a, n).to_bytes(), how, gfx=b.gfx))
    elif mode.startswith('shared-caller-buffers'):
        how = mode.rsplit('-', 1)[1]
        bufs = {n: bytearray(fills[n]) for n in REGIONS}
        for g in (a, b):
            g.gfx = construct('gfx', bufs['gfx'], how)
            for n in ('map', 'gff', 'music', 'sfx'):
                setattr(g, n, construct(n, bufs[n], how, gfx=g.gfx))
    elif mode == 'label-from-gfx':
        a.label = Gfx.from_bytes(a.gfx.to_bytes(), version=33)
        b = None
    return a, b, bufs, None


def run_twins(mode, seed, res):
    """Edits through the accessors of cart A only: cart B (loaded from the same file a second time / built from A's
    to_bytes() / built from the same caller buffers), the caller's buffers, A's label and a cart loaded afterwards
    must keep their bytes - 'every byte not addressed by an edit is unchanged' includes bytes of other objects."""
    case = {'twins': mode}
    try:
        a, b, bufs, reload_fn = _twin_pair(mode, seed)
    except Exception as e:
        res.violation('C17|twins|setup-raise|%s|%s' % (type(e).__name__, mode), 'building the carts raised %r' % e, case)
        return
    b0 = carts.game_regions(b) if b is not None else None
    bufs0 = {n: bytes(v) for n, v in bufs.items()}
    label0 = bytes(a.label.to_bytes()) if getattr(a, 'label', None) is not None else None
    fresh0 = carts.game_regions(reload_fn()) if reload_fn else None
    mem = M.new_mem(carts.game_regions(a))
    hist = []
    for op in loaded_menu():
        comp = next(c for c, (ops_fn, _) in COMPONENTS.items() if op in ops_fn())
        r = ShardResult()
        m2 = step(mem, op, r, hist, 0, COMPONENTS[comp][1], game=a)
        res.evaluations += r.evaluations
        res.transitions += r.transitions
        for sig, v in r.violations.items():
            res.violation('C17|twins|%s|%s' % (sig.split('|', 1)[1], mode), v[0] + ' [twin mode %s]' % mode,
                          {'twins': mode, 'hist': hist + [list(op)]})
        if m2 is None:
            return
        hist = hist + [list(op)]
        mem = m2
        what = None
        if b is not None and carts.game_regions(b) != b0:
            what = 'the other cart'
        elif any(bytes(v) != bufs0[n] for n, v in bufs.items()):
            what = 'the caller\'s buffer'
        elif label0 is not None and bytes(a.label.to_bytes()) != label0:
            what = 'the cart\'s label'
        if what:
            res.violation('C17|twins|other-object-changed|%s|%s' % (mode, op[0]),
                          'edit %r on one cart changed %s (%s)' % (op, what, mode), {'twins': mode, 'hist': hist})
            return
        res.nontriv(('twins', mode, op))
    if reload_fn:
        again = carts.game_regions(reload_fn())
        if again != fresh0:
            res.violation('C17|twins|later-load-changed|%s' % mode,
                          'after the edits on a loaded cart, loading the same file again gives other contents (%s)' % mode, case)
            return
    res.outcome(('twins', mode))


def plan(tier):
    b = BOUNDS[tier]
    return {'gfxmap': b['gfxmap_depth'], 'gff': b['gff_depth'], 'sfx': b['sfx_depth'], 'music': b['music_depth']}


def shards(tier, seed):
    items = []
    for comp, depth in plan(tier).items():
        n = len(COMPONENTS[comp][0]())
        group = 1 if (tier == 'thorough' and comp in ('gfxmap', 'sfx')) else (4 if comp in ('gfxmap', 'sfx') else 12)
        for init in range(3):
            for i in range(0, n, group):
                items.append((tier, seed, comp, init, i, min(n, i + group)))
    lc = loaded_cases(tier)
    items += [('loaded', seed, lo, min(len(lc), lo + 12)) for lo in range(0, len(lc), 12)]
    items += [('twins', seed, m) for m in TWIN_MODES]
    items += [('sweep', seed, k) for k in range(SWEEP_PARTS)]
    # heavy components first
    items.sort(key=lambda it: 3 if it[0] in ('loaded', 'twins', 'sweep') else {'gfxmap': 0, 'sfx': 1}.get(it[2], 2))
    return items


def run_shard(item):
    if item[0] == 'sweep':
        res = ShardResult()
        run_sweep(item[2], item[1], res)
        if item[2] == 0:
            res.sample({'family': 'sweep', 'getters': len(sweep_getters()), 'setters': len(sweep_setters()), 'initial_contents': 2})
        return res
    if item[0] == 'twins':
        res = ShardResult()
        run_twins(item[2], item[1], res)
        res.sample({'family': 'twins', 'mode': item[2]})
        return res
    if item[0] == 'loaded':
        res = ShardResult()
        for tag, order, present in loaded_cases('quick')[item[2]:item[3]]:
            run_loaded(tag, order, present, item[1], res)
        res.sample({'family': 'loaded', 'case': list(loaded_cases('quick')[item[2]])})
        return res
    tier, seed, comp, init, lo, hi = item
    res = ShardResult()
    depth = plan(tier)[comp]
    stride = 4 if (tier == 'thorough' and comp in ('gfxmap', 'sfx')) else 1
    for i in range(lo, hi):
        explore(comp, i, init, seed, depth, res, stride, lvl1_stride=1)
        if i == 7 and init == 2:
            res.sample({'component': comp, 'initial': 'seeded', 'first_op': list(COMPONENTS[comp][0]()[i]), 'depth': depth})
    return res


def replay(case):
    res = ShardResult()
    if 'sweep' in case:
        for part in range(SWEEP_PARTS):
            run_sweep(part, 0, res)
        return [(s, v[0]) for s, v in res.violations.items()]
    if 'twins' in case:
        run_twins(case['twins'], 0, res)
        return [(s, v[0]) for s, v in res.violations.items()]
    if 'loaded' in case:
        tag, order, present = case['loaded']
        run_loaded(tag, order, present, 0, res)
        return [(s, v[0]) for s, v in res.violations.items()]
    hist = [tuple(o) for o in case['hist']]
    comp = None
    for c, (ops_fn, obs_fn) in COMPONENTS.items():
        if hist[0] in [tuple(o) for o in ops_fn()]:
            comp = c
    obs_fn = COMPONENTS[comp][1]
    for init in range(3):
        mem = M.new_mem(initial_fills(init, 0))
        for lvl, op in enumerate(hist):
            mem = step(mem, op, res, [list(o) for o in hist[:lvl]], 0, obs_fn)
            if mem is None:
                break
    return [(s, v[0]) for s, v in res.violations.items()]
